package c13

import (
	"errors"
	"reflect"

	"verif/harness/internal/gen"
)

// The catalogue: hand-written types that carry the methods reflect.StructOf
// types cannot have. Every type is registered together with its structural
// shape, which drives value generation, configuration building and the
// expectation. The number 13 is the one value the Validate methods reject; the
// value generators never produce it, so only an injected fault does.

// DefStruct has defaults for two of its three settings and rejects z == 13.
type DefStruct struct {
	X    int    `config:"x"`
	Y    string `config:"y"`
	Z    int    `config:"z"`
	keep int
}

func (d *DefStruct) InitDefaults() { d.X = 5; d.Y = "def" }

func (d DefStruct) Validate() error {
	if d.Z == 13 {
		return errors.New("defstruct: z must not be 13")
	}
	return nil
}

// DefInt is a primitive with a default.
type DefInt int

func (d *DefInt) InitDefaults() { *d = 7 }

// DefMap is a map with a default entry.
type DefMap map[string]int

func (d DefMap) InitDefaults() { d["dflt"] = 1 }

// ValStruct has no defaults and rejects x == 13 (checked after all of its fields were processed).
type ValStruct struct {
	X int    `config:"x"`
	Y string `config:"y"`
}

func (v ValStruct) Validate() error {
	if v.X == 13 {
		return errors.New("valstruct: x must not be 13")
	}
	return nil
}

// ValInt is a primitive that rejects 13.
type ValInt int

func (v ValInt) Validate() error {
	if v == 13 {
		return errors.New("valint: must not be 13")
	}
	return nil
}

// UnpStr unpacks itself from a string setting and rejects "bad". Unpack
// overwrites the whole value, so it does not matter whether the library calls
// it on the existing value or on a fresh one.
type UnpStr struct{ S string }

func (u *UnpStr) Unpack(s string) error {
	if s == "bad" {
		return errors.New("unpstr: bad")
	}
	u.S = "<" + s + ">"
	return nil
}

// DefOuter has defaults of its own and contains types that have defaults
// (initialisation is top-down: the outer defaults run first).
type DefOuter struct {
	A   int        `config:"a"`
	In  DefStruct  `config:"in"`
	P   *DefStruct `config:"p"`
	L   []DefInt   `config:"l"`
	hid string
	Ig  int `config:"ig,ignore"`
}

func (o *DefOuter) InitDefaults() {
	o.A = 3
	o.In.X = 9 // overwritten by the defaults of DefStruct, which run afterwards
	o.In.Z = 8
	o.hid = "init"
	o.Ig = 4
	if o.L == nil {
		o.L = []DefInt{2}
	}
}

// Top is used as the type of the whole target: the struct passed to Unpack
// has defaults and a Validate method of its own (it rejects z == 13 after all
// fields were processed).
type Top struct {
	A   int            `config:"a"`
	S   []int          `config:"s"`
	M   map[string]int `config:"m"`
	D   DefStruct      `config:"d"`
	PV  *ValStruct     `config:"pv"`
	R   []ValStruct    `config:"r,replace"`
	hid int
	Ig  string `config:"ig,ignore"`
	N   DefInt `config:"n"`
	Z   int    `config:"z"`
}

func (t *Top) InitDefaults() {
	if t.A == 0 {
		t.A = 11
	}
	t.hid = 77
}

func (t Top) Validate() error {
	if t.Z == 13 {
		return errors.New("top: z must not be 13")
	}
	return nil
}

const (
	kTop       = "cat:c13_top"
	kDefStruct = "cat:c13_defstruct"
	kDefInt    = "cat:c13_defint"
	kDefMap    = "cat:c13_defmap"
	kValStruct = "cat:c13_valstruct"
	kValInt    = "cat:c13_valint"
	kUnpStr    = "cat:c13_unpstr"
	kDefOuter  = "cat:c13_defouter"
)

var catKinds = []string{kDefStruct, kDefInt, kDefMap, kValStruct, kValInt, kUnpStr, kDefOuter, kDefStruct, kValStruct}

func td(kind string) *gen.TD { return &gen.TD{Kind: kind} }

func init() {
	defStructShape := &gen.TD{Kind: "struct", Fields: []gen.FD{
		{Name: "X", Tag: "x", T: td("int")},
		{Name: "Y", Tag: "y", T: td("string")},
		{Name: "Z", Tag: "z", T: td("int")},
		{Name: "keep", Tag: "keep", Unexp: true, T: td("int")},
	}}
	gen.RegisterCat("c13_defstruct", reflect.TypeOf(DefStruct{}), defStructShape)
	gen.RegisterCat("c13_defint", reflect.TypeOf(DefInt(0)), td("int"))
	gen.RegisterCat("c13_defmap", reflect.TypeOf(DefMap(nil)), &gen.TD{Kind: "map", Elem: td("int")})
	gen.RegisterCat("c13_valstruct", reflect.TypeOf(ValStruct{}), &gen.TD{Kind: "struct", Fields: []gen.FD{
		{Name: "X", Tag: "x", T: td("int")},
		{Name: "Y", Tag: "y", T: td("string")},
	}})
	gen.RegisterCat("c13_valint", reflect.TypeOf(ValInt(0)), td("int"))
	gen.RegisterCat("c13_unpstr", reflect.TypeOf(UnpStr{}), &gen.TD{Kind: "struct", Fields: []gen.FD{
		{Name: "S", Tag: "s", T: td("string")},
	}})
	gen.RegisterCat("c13_defouter", reflect.TypeOf(DefOuter{}), &gen.TD{Kind: "struct", Fields: []gen.FD{
		{Name: "A", Tag: "a", T: td("int")},
		{Name: "In", Tag: "in", T: td(kDefStruct)},
		{Name: "P", Tag: "p", T: &gen.TD{Kind: "ptr", Elem: td(kDefStruct)}},
		{Name: "L", Tag: "l", T: &gen.TD{Kind: "slice", Elem: td(kDefInt)}},
		{Name: "hid", Tag: "hid", Unexp: true, T: td("string")},
		{Name: "Ig", Tag: "ig", Ignore: true, T: td("int")},
	}})
}

func init() {
	gen.RegisterCat("c13_top", reflect.TypeOf(Top{}), &gen.TD{Kind: "struct", Fields: []gen.FD{
		{Name: "A", Tag: "a", T: td("int")},
		{Name: "S", Tag: "s", T: &gen.TD{Kind: "slice", Elem: td("int")}},
		{Name: "M", Tag: "m", T: &gen.TD{Kind: "map", Elem: td("int")}},
		{Name: "D", Tag: "d", T: td(kDefStruct)},
		{Name: "PV", Tag: "pv", T: &gen.TD{Kind: "ptr", Elem: td(kValStruct)}},
		{Name: "R", Tag: "r", Policy: "replace", T: &gen.TD{Kind: "slice", Elem: td(kValStruct)}},
		{Name: "hid", Tag: "hid", Unexp: true, T: td("int")},
		{Name: "Ig", Tag: "ig", Ignore: true, T: td("string")},
		{Name: "N", Tag: "n", T: td(kDefInt)},
		{Name: "Z", Tag: "z", T: td("int")},
	}})
}

// topKinds are the catalogue structs that also serve as the type of the whole target.
var topKinds = []string{kTop, kTop, kDefStruct, kValStruct, kDefOuter}

type initer interface{ InitDefaults() }

var initerType = reflect.TypeOf((*initer)(nil)).Elem()

// hasInit reports whether values of the type get defaults from an InitDefaults method.
func hasInit(t reflect.Type) bool {
	return t.Implements(initerType) || reflect.PtrTo(t).Implements(initerType)
}

// callInit runs the type's own InitDefaults on v (which must be addressable).
func callInit(v reflect.Value) {
	if v.Type().Implements(initerType) {
		v.Interface().(initer).InitDefaults()
		return
	}
	if reflect.PtrTo(v.Type()).Implements(initerType) {
		v.Addr().Interface().(initer).InitDefaults()
	}
}

// leafBase returns the primitive kind a setting for the type must have
// ("int8", "string", "dur", "regexp", "unpstr", ...), or "" if the type is
// unpacked from an object or a list.
func leafBase(t *gen.TD) string {
	if t.Kind == kUnpStr {
		return "unpstr"
	}
	sh := t.Shape()
	if sh.IsLeaf() {
		return sh.Base()
	}
	return ""
}
