package c13

import (
	"fmt"
	"math"
	"os"
	"sort"
	"strings"

	"pgregory.net/rapid"

	"verif/harness/internal/gen"
	"verif/harness/internal/runlog"
)

// Fault describes the one setting (or field) the generator made invalid.
type Fault struct {
	Kind  string   `json:"kind"`  // conv | shape | unpacker | val-leaf | val-struct | val-tag | val-absent
	Path  []string `json:"path"`  // configuration path of the offending setting (field name for val-absent)
	Index int      `json:"index"` // number of mentioned primitive settings processed before it
	Of    int      `json:"of"`    // number of mentioned primitive settings
}

// Step is one Unpack call of a history: its options, its configuration and
// the fault injected into that configuration (or into the validator tags the
// call reads).
type Step struct {
	Tag    string    `json:"tag,omitempty"`    // StructTag option: "" none given | config | alt | none (a tag name no field has)
	VTag   string    `json:"vtag,omitempty"`   // ValidatorTag option: "" none given | validate | altv | none
	Sep    string    `json:"sep,omitempty"`    // PathSep option ("" = none given)
	Global string    `json:"global,omitempty"` // policy option: "" | replace | append | prepend
	Cfg    *gen.Tree `json:"cfg"`
	Fault  *Fault    `json:"fault,omitempty"`
	Fresh  bool      `json:"fresh,omitempty"`  // unpack into a newly pre-filled target instead of over the previous result
	Reuse  bool      `json:"reuse,omitempty"`  // unpack the *Config object of the previous step again (Cfg repeats its tree)
	Repeat bool      `json:"repeat,omitempty"` // Cfg repeats the tree of the previous step (informational; with Reuse false a new *Config object is made from it)
}

// Alias makes two places of the pre-filled target share one slice, map or
// pointer: the value at Dst is assigned from Src after pre-filling. Paths are
// field indices (through struct values) and element indices (through slices).
// For slices Cut selects windows of the one backing array: 0 both places hold
// the whole slice; k > 0 Dst holds Src[:k]; k < 0 Dst holds the whole slice
// and Src is cut to Src[:-k] (so that its spare capacity is Dst's contents).
type Alias struct {
	Src []int `json:"src"`
	Dst []int `json:"dst"`
	Cut int   `json:"cut,omitempty"`
}

// Case is a history of Unpack calls into a pre-filled struct: the first call
// is described by the fields of the case itself, later ones by More.
type Case struct {
	T      *gen.TD   `json:"t"`                // struct type as read under the tag names config/validate (with policy tags, ignored/unexported/inline fields, catalogue types)
	P      *gen.TV   `json:"p"`                // pre-filled value
	Cfg    *gen.Tree `json:"cfg"`              // the configuration; mentions a subset of the fields
	Global string    `json:"global,omitempty"` // policy option passed to Unpack: "" | replace | append | prepend
	Fault  *Fault    `json:"fault,omitempty"`

	Alt      *gen.TD `json:"alt,omitempty"`  // the same Go structure as read under the tag names alt/altv (nil: the type carries no such tags)
	Tag      string  `json:"tag,omitempty"`  // options of the first call, as in Step
	VTag     string  `json:"vtag,omitempty"` //
	Sep      string  `json:"sep,omitempty"`  //
	More     []Step  `json:"more,omitempty"` // further calls, in order
	Alias    []Alias `json:"alias,omitempty"`
	Indirect bool    `json:"indirect,omitempty"` // Unpack receives a pointer to the pointer to the struct
}

// steps lists all calls of the history.
func (c *Case) steps() []Step {
	out := []Step{{Tag: c.Tag, VTag: c.VTag, Sep: c.Sep, Global: c.Global, Cfg: c.Cfg, Fault: c.Fault, Fresh: true}}
	return append(out, c.More...)
}

var tagPolicies = []string{"replace", "append", "prepend", "merge"}

// tgen draws types. avoid lists defects of other properties whose input
// class is not to be generated (environment variable C13_AVOID, a debugging
// knob for runs against trees that still have them): D45 named string types,
// D26 arrays behind pointers or in maps, D30 pointers to slices or maps, D51
// an object or list as the invalid setting of a regexp.
type tgen struct {
	t       *rapid.T
	counter int
	avoid   map[string]bool
	// exportedTwins: two exported fields of one struct may differ only in the case of their Go names (both
	// carry explicit, different tags). Not for types that are also read under a tag name no field has,
	// where both would read the same lower-cased name.
	exportedTwins bool
	// iface: percentage of type draws that yield a place of type interface{} (or a map, list, array of such
	// places, or a pointer to one) pre-filled with a typed value; 0 = none (see iface_test.go)
	iface int
}

func avoided() map[string]bool {
	m := map[string]bool{}
	for _, id := range strings.Split(os.Getenv("C13_AVOID"), ",") {
		if id = strings.TrimSpace(id); id != "" {
			m[id] = true
		}
	}
	return m
}

func (g *tgen) next() int { g.counter++; return g.counter }

func (g *tgen) leafKind() string {
	pool := append([]string{}, gen.PrimKinds...)
	pool = append(pool, "dur", "regexp", "int", "string", "uint64", "float64", "regexp")
	pool = append(pool, gen.NamedKinds...)
	k := rapid.SampledFrom(pool).Draw(g.t, "prim")
	if g.avoid["D45"] && k == "named:string" {
		k = "named:int"
	}
	return k
}

func containsArray(td *gen.TD) bool {
	for x := td; x != nil; x = x.Elem {
		if x.Kind == "array" {
			return true
		}
		if x.Kind != "ptr" {
			return false
		}
	}
	return false
}

// typ draws a field type.
func (g *tgen) typ(depth int) *gen.TD {
	// cumulative weights of leaf, catalogue, pointer, slice, array, map, struct: the fields of the
	// outer struct are mostly containers (that is where merging happens), the innermost are primitives
	w := [7]int{5, 7, 9, 12, 13, 16, 18}
	switch {
	case depth <= 0:
		w = [7]int{5, 7, 7, 7, 7, 7, 7}
	case depth >= 2:
		w = [7]int{3, 5, 7, 11, 12, 15, 18}
	}
	if g.iface > 0 && depth >= 0 && rapid.IntRange(0, 99).Draw(g.t, "iface") < g.iface {
		return g.ifaceT(depth)
	}
	k := rapid.IntRange(0, w[6]-1).Draw(g.t, "tk")
	switch {
	case k < w[0]:
		return td(g.leafKind())
	case k < w[1]:
		c := rapid.SampledFrom(catKinds).Draw(g.t, "cat")
		if c == kDefOuter && depth <= 0 {
			c = kDefStruct
		}
		return td(c)
	case k < w[2]:
		e := g.typ(depth - 1)
		if g.avoid["D26"] && containsArray(e) {
			e = td("int")
		}
		if k := stripPtr(e).Shape().Kind; g.avoid["D30"] && (k == "slice" || k == "map") {
			e = td("int")
		}
		if e.Kind == "iface" {
			// no *interface{}: Unpack stores the raw *Config of an object setting there (an oddity of its own, not generated)
			return e
		}
		return &gen.TD{Kind: "ptr", Elem: e}
	case k < w[3]:
		return &gen.TD{Kind: "slice", Elem: g.typ(depth - 1)}
	case k < w[4]:
		return &gen.TD{Kind: "array", N: rapid.IntRange(0, 3).Draw(g.t, "n"), Elem: g.typ(depth - 1)}
	case k < w[5]:
		e := g.typ(depth - 1)
		if g.avoid["D26"] && containsArray(e) {
			e = td("int")
		}
		return &gen.TD{Kind: "map", Elem: e}
	default:
		return g.structT(depth)
	}
}

// structT draws a struct type. Configuration names are unique over the whole
// type (f<n>), so inline structs never collide with their neighbours.
func (g *tgen) structT(depth int) *gen.TD {
	n := rapid.IntRange(1, runlog.Pick(4, 5)).Draw(g.t, "nf")
	st := &gen.TD{Kind: "struct"}
	for i := 0; i < n; i++ {
		f := gen.FD{Name: fmt.Sprintf("F%d", i), Tag: fmt.Sprintf("f%d", g.next())}
		opt := rapid.IntRange(0, 13).Draw(g.t, "fopt")
		switch opt {
		case 0:
			f.Inline, f.Tag = true, ""
			if rapid.IntRange(0, 2).Draw(g.t, "inlcat") == 0 {
				f.T = td(rapid.SampledFrom([]string{kDefStruct, kValStruct}).Draw(g.t, "inlk"))
			} else {
				f.T = g.structT(depth - 1)
			}
		case 1:
			f.T = g.typ(depth - 1)
			f.Ignore = true
		case 2:
			f.T = g.typ(depth - 1)
			f.Unexp = true
			f.Name = fmt.Sprintf("f%d", i)
		case 3:
			f.T = g.typ(depth - 1)
			f.Tag = ""
			f.Name = fmt.Sprintf("G%dx%d", i, g.next()) // configuration name = lower-cased field name
		default:
			f.T = g.typ(depth - 1)
		}
		if !f.Ignore && !f.Unexp && rapid.IntRange(0, 3).Draw(g.t, "haspol") == 0 {
			f.Policy = rapid.SampledFrom(tagPolicies).Draw(g.t, "fpol")
		}
		g.goName(st, &f, i)
		st.Fields = append(st.Fields, f)
	}
	return st
}

// Go field names. Whether Unpack may touch a field is decided by its Go name
// (exported or not), and the name under which an untagged field is read is
// derived from it, so the names are part of "for all struct types".
var (
	// Upper-case letters outside ASCII that an exported identifier may start with: encodings of 2, 3 and 4
	// bytes; letters whose lower case is an ASCII letter (Kelvin sign, dotted capital I), is shorter, or is
	// the letter itself (mathematical bold A); a digraph with a separate title case.
	upperStarts = []string{"Ä", "É", "Δ", "Ж", "Ω", "Ö", "\u212a", "İ", "ẞ", "Ａ", "𝐀", "Ⴀ", "Ǆ", "Σ"}
	// First characters of identifiers that are NOT exported although they are no ASCII lower-case letters:
	// lower-case and caseless letters outside ASCII, title case, the underscore (also before an upper-case letter).
	lowerStarts = []string{"ä", "δ", "ж", "_", "世", "ǅ", "ß", "ａ", "ª", "_A", "ǆ", "é"}
	longNames   = []int{30, 70, 150, 300}
)

// goName varies the Go name of the field f (the i-th of st, not yet appended).
// Half of the fields keep the plain names F<i> / f<i> / G<i>x<n>. The digits
// that follow the first letter are kept, so names stay unique within the
// struct and the lower-cased names of untagged fields unique over the type.
func (g *tgen) goName(st *gen.TD, f *gen.FD, i int) {
	k := rapid.IntRange(0, 15).Draw(g.t, "goname")
	if k < 8 {
		return
	}
	plain := f.Name
	rest := f.Name[1:]
	untagged := f.Tag == "" && !f.Inline
	twin := func() {
		// the nearest earlier sibling that is exported and does not get its configuration name from its Go name
		for j := i - 1; j >= 0; j-- {
			p := &st.Fields[j]
			if p.Unexp || (p.Tag == "" && !p.Inline) {
				continue
			}
			switch {
			case f.Unexp:
				f.Name = fmt.Sprintf(rapid.SampledFrom([]string{"tw%d", "tW%d"}).Draw(g.t, "twincase"), j)
			case g.exportedTwins && !untagged:
				f.Name = fmt.Sprintf("TW%d", j)
			default:
				return
			}
			for n := range st.Fields {
				if n != j && strings.EqualFold(st.Fields[n].Name, f.Name) {
					f.Name = plain // one twin per sibling
					return
				}
			}
			p.Name = fmt.Sprintf("Tw%d", j)
			return
		}
	}
	long := func(first string) string {
		return first + strings.Repeat("o", rapid.SampledFrom(longNames).Draw(g.t, "namelen")) + rest
	}
	switch {
	case f.Unexp:
		switch {
		case k <= 11:
			f.Name = rapid.SampledFrom(lowerStarts).Draw(g.t, "lowerstart") + rest
		case k == 12:
			f.Name = long("f")
		case k <= 14:
			twin()
		default:
			f.Name = "fÄß" + rest
		}
	default:
		switch {
		case k <= 10:
			f.Name = rapid.SampledFrom(upperStarts).Draw(g.t, "upperstart") + rest
		case k == 11:
			f.Name = plain[:1] + "äÖß" + rest // letters outside ASCII behind an ASCII first letter
		case k == 12:
			f.Name = long(plain[:1])
		case k == 13:
			twin()
		case untagged || f.Inline:
			f.Name = rapid.SampledFrom(upperStarts).Draw(g.t, "upperstart") + "Ü" + rest
		default:
			// the configuration name the tag gives is the Go name itself, or differs from it only in case
			// (upper-cased; lower-cased, which is what no tag at all would give)
			f.Name = fmt.Sprintf("H%dx%d", i, g.next())
			switch rapid.IntRange(0, 2).Draw(g.t, "tageqname") {
			case 0:
				f.Tag = f.Name
			case 1:
				f.Tag = strings.ToUpper(f.Name)
			default:
				f.Tag = strings.ToLower(f.Name)
			}
		}
	}
	for n := range st.Fields {
		if st.Fields[n].Name == f.Name {
			f.Name = plain
		}
	}
}

// nameFeatures records what the Go field names of the type are like, for the class histogram.
func nameFeatures(t *gen.TD, seen map[string]bool) {
	if strings.HasPrefix(t.Kind, "cat:") {
		return
	}
	if t.Elem != nil {
		nameFeatures(t.Elem, seen)
	}
	for i := range t.Fields {
		f := &t.Fields[i]
		untagged := f.Tag == "" && !f.Inline
		switch {
		case f.Unexp && (f.Name[0] >= 0x80 || f.Name[0] == '_'):
			seen["names: unexported field whose name starts with a letter outside ASCII or an underscore"] = true
		case !f.Unexp && f.Name[0] >= 0x80:
			seen["names: exported field whose name starts with an upper-case letter outside ASCII"] = true
			if untagged {
				seen["names: such a field without tag (read under its lower-cased name)"] = true
			}
			if f.Inline {
				seen["names: such a field is an inline struct"] = true
			}
		}
		if len(f.Name) > 30 {
			seen["names: a name longer than 30 bytes"] = true
		}
		if low := strings.ToLower(f.Name); untagged && !f.Unexp && len(low) != len(f.Name) {
			seen["names: untagged field whose lower-cased name has another length in bytes"] = true
		}
		if untagged && !f.Unexp && f.Name[0] < 0x80 && !isASCII(f.Name) {
			seen["names: untagged field with letters outside ASCII behind an ASCII first letter"] = true
		}
		if f.Tag != "" && !f.Unexp {
			switch {
			case f.Tag == f.Name:
				seen["names: tag equal to the Go name"] = true
			case f.Tag == strings.ToLower(f.Name):
				seen["names: tag equal to the lower-cased Go name"] = true
			case strings.EqualFold(f.Tag, f.Name):
				seen["names: tag differs from the Go name only in case"] = true
			}
		}
		for j := 0; j < i; j++ {
			if o := &t.Fields[j]; strings.EqualFold(o.Name, f.Name) {
				if o.Unexp || f.Unexp {
					seen["names: an exported and an unexported field differ only in case"] = true
				} else {
					seen["names: two exported fields differ only in case"] = true
				}
			}
		}
		nameFeatures(f.T, seen)
	}
}

func isASCII(s string) bool {
	for i := 0; i < len(s); i++ {
		if s[i] >= 0x80 {
			return false
		}
	}
	return true
}

// ---------------------------------------------------------------------------
// the configuration, built from the type

var (
	cfgStrings = []string{"", "a", "${x}", "a.b", "a,b", "$", "[1]", "1", "true", " pad ", "é", "new"}
	cfgRegexps = []string{"", "a.*b$", "^[0-9]+", `\$\{x\}`, "a,b", "[a-c]{2}", "new+"}
	cfgKeys    = []string{"k", "j", "a b", "$", "x,y", "K", "é", "n"}
)

// cgen draws configurations for one Unpack call: names are those of the view
// the call reads, written below intermediate objects where the call's path
// separator splits them.
type cgen struct {
	t         *rapid.T
	sep       string          // PathSep of the call
	noMention map[string]bool // Go paths (".F1.F0") of fields that must stay without a setting (aliases of non-flat values)
	foreignOn bool            // also write settings under names only the other views read
	mention   int             // percentage of the fields that get a setting (0: 70)
}

func (g *cgen) pick(vs ...*gen.Tree) *gen.Tree {
	return vs[rapid.IntRange(0, len(vs)-1).Draw(g.t, "leaf")]
}

// leaf draws a setting that is valid for the primitive kind.
func (g *cgen) leaf(t *gen.TD) *gen.Tree {
	base := leafBase(t)
	switch base {
	case "bool":
		return g.pick(gen.Bool(true), gen.Bool(false), gen.Str("true"), gen.Str("false"))
	case "int", "int8", "int16", "int32", "int64":
		bits := t.Type().Bits()
		min := int64(-1) << (bits - 1)
		max := int64(1)<<(bits-1) - 1
		return g.pick(gen.Int(0), gen.Int(1), gen.Int(-1), gen.Int(42), gen.Int(-7), gen.Int(99), gen.Int(min), gen.Int(max), gen.Uint(5), gen.Str("12"), gen.Str("-3"))
	case "uint", "uint8", "uint16", "uint32", "uint64":
		bits := t.Type().Bits()
		max := uint64(math.MaxUint64)
		if bits < 64 {
			max = uint64(1)<<uint(bits) - 1
		}
		return g.pick(gen.Uint(0), gen.Uint(1), gen.Uint(7), gen.Uint(99), gen.Uint(max), gen.Int(3), gen.Str("9"))
	case "float32":
		return g.pick(gen.Float(0), gen.Float(1.5), gen.Float(-2.25), gen.Float(16777216), gen.Int(3), gen.Uint(4), gen.Str("0.5"))
	case "float64":
		return g.pick(gen.Float(0), gen.Float(1.5), gen.Float(-2.25), gen.Float(1e21), gen.Float(math.Copysign(0, -1)), gen.Int(3), gen.Uint(4), gen.Str("0.5"))
	case "string":
		if rapid.IntRange(0, 5).Draw(g.t, "strprim") == 0 {
			return g.pick(gen.Int(5), gen.Bool(true), gen.Float(1.5), gen.Uint(8))
		}
		return gen.Str(rapid.SampledFrom(cfgStrings).Draw(g.t, "s"))
	case "dur":
		return g.pick(gen.Str("1s"), gen.Str("90m"), gen.Str("-1.5h"), gen.Str("0"), gen.Int(5), gen.Uint(3), gen.Float(0.25))
	case "regexp":
		return gen.Str(rapid.SampledFrom(cfgRegexps).Draw(g.t, "re"))
	case "unpstr":
		return g.pick(gen.Str("hello"), gen.Str(""), gen.Str("x y"), gen.Int(5))
	case "unpint":
		return g.pick(gen.Int(5), gen.Int(-3), gen.Uint(8), gen.Int(0))
	}
	panic("c13: no setting for leaf kind " + base)
}

// setting draws a setting of the shape the type is unpacked from. Lists and
// map values never contain nil (the statement only defines "not mentioned"
// for fields). tv is the pre-filled value at this place (nil if there is
// none): map keys are drawn from its keys as well, so that settings meet
// existing entries. gp is the Go path of the place ("-" once it is no longer
// reached through struct values only), others the descriptions of the same
// type under the other views.
func (g *cgen) setting(t *gen.TD, tv *gen.TV, gp string, others []*gen.TD) *gen.Tree {
	if leafBase(t) != "" {
		return g.leaf(t)
	}
	sh := t.Shape()
	elemTV := func(i int) *gen.TV {
		if tv != nil && !tv.Nil && i < len(tv.Elems) {
			return tv.Elems[i]
		}
		return nil
	}
	var oe []*gen.TD
	for _, o := range others {
		if o = o.Shape(); o.Elem != nil {
			oe = append(oe, o.Elem)
		}
	}
	switch sh.Kind {
	case "ptr":
		return g.setting(sh.Elem, elemTV(0), "-", oe)
	case "iface":
		// a setting that is valid for what the place holds; anything for the untyped nil
		if sh.Elem == nil || tv == nil || tv.Nil || len(tv.Elems) == 0 {
			return g.genericSetting()
		}
		return g.setting(sh.Elem, tv.Elems[0], "-", oe)
	case "slice":
		n := rapid.IntRange(0, 3).Draw(g.t, "llen")
		if rapid.IntRange(0, 3).Draw(g.t, "lplain") == 3 {
			// a value that is no list stands for the list of one element ("Primitive values will be handled like
			// arrays of length 1"): the plain spelling of [v], whatever the place is pre-filled with. An element
			// whose own setting is an object or a list keeps the list spelling (an object given for a list is read
			// as a list without elements, a list as the list itself).
			if e := g.setting(sh.Elem, elemTV(0), "-", oe); e.IsPrim() {
				return e
			} else {
				return gen.List(e)
			}
		}
		l := gen.List()
		for i := 0; i < n; i++ {
			l.Vals = append(l.Vals, g.setting(sh.Elem, elemTV(i), "-", oe))
		}
		return l
	case "array":
		if sh.N == 1 && rapid.IntRange(0, 2).Draw(g.t, "aplain") == 0 {
			// the plain spelling of a list of one element, for an array of one element
			if e := g.setting(sh.Elem, elemTV(0), "-", oe); e.IsPrim() {
				return e
			} else {
				return gen.List(e)
			}
		}
		l := gen.List()
		for i := 0; i < sh.N; i++ {
			l.Vals = append(l.Vals, g.setting(sh.Elem, elemTV(i), "-", oe))
		}
		return l
	case "map":
		n := rapid.IntRange(0, 3).Draw(g.t, "mlen")
		o := gen.Obj()
		for i := 0; i < n; i++ {
			var k string
			var etv *gen.TV
			if tv != nil && len(tv.Keys) > 0 && rapid.Bool().Draw(g.t, "oldkey") {
				j := rapid.IntRange(0, len(tv.Keys)-1).Draw(g.t, "oldk")
				k, etv = tv.Keys[j], tv.Elems[j]
			} else {
				k = rapid.SampledFrom(cfgKeys).Draw(g.t, "mk")
				if tv != nil {
					for j, ok := range tv.Keys {
						if ok == k {
							etv = tv.Elems[j]
						}
					}
				}
			}
			if o.Get(k) == nil {
				o.Put(k, g.setting(sh.Elem, etv, "-", oe))
			}
		}
		return o
	case "struct":
		o := gen.Obj()
		g.object(o, sh, tv, gp, others)
		return o
	}
	panic("c13: no setting for kind " + sh.Kind)
}

// object fills the configuration object o a struct is unpacked from.
func (g *cgen) object(o *gen.Tree, sh *gen.TD, tv *gen.TV, gp string, others []*gen.TD) {
	ns := map[string]bool{}
	namespace(sh, g.sep, ns)
	g.fill(o, sh, tv, gp, others, ns)
	if g.foreignOn {
		g.foreign(o, sh, tv, ns, others)
	}
}

func fieldOthers(others []*gen.TD, i int) []*gen.TD {
	var out []*gen.TD
	for _, o := range others {
		if o = o.Shape(); i < len(o.Fields) {
			out = append(out, o.Fields[i].T)
		}
	}
	return out
}

// fill mentions a random subset of the struct's fields in o. ns holds the keys
// of o that the struct (with its inline structs) reads: a setting under the
// name of a skipped field is only written where no field reads that key (an
// unexported field whose name differs from an exported one only in case has
// that field's name when no tag names them).
func (g *cgen) fill(o *gen.Tree, sh *gen.TD, tv *gen.TV, gp string, others []*gen.TD, ns map[string]bool) {
	for i := range sh.Fields {
		f := &sh.Fields[i]
		var ftv *gen.TV
		if tv != nil && i < len(tv.Elems) {
			ftv = tv.Elems[i]
		}
		fgp := "-" // "-": not reached through struct values only
		if gp != "-" {
			fgp = gp + "." + f.Name
		}
		if f.Inline {
			g.fill(o, f.T.Shape(), ftv, fgp, fieldOthers(others, i), ns)
			continue
		}
		if g.noMention[fgp] {
			continue
		}
		r := rapid.IntRange(0, 99).Draw(g.t, "mention")
		if g.mention > 0 && !(f.Ignore || f.Unexp) {
			r = r * 70 / g.mention // the first g.mention percent get a setting
		}
		switch {
		case f.Ignore || f.Unexp:
			// a setting under the name of a field Unpack must skip
			if r < 35 && !ns[firstSegment(f.ConfigName(), g.sep)] {
				putAt(o, f.ConfigName(), g.sep, g.setting(f.T, ftv, fgp, fieldOthers(others, i)))
			}
		case r < 70:
			putAt(o, f.ConfigName(), g.sep, g.setting(f.T, ftv, fgp, fieldOthers(others, i)))
		case r < 78:
			putAt(o, f.ConfigName(), g.sep, gen.Nil()) // a nil setting counts as not mentioned
		}
	}
}

// foreign adds settings no field reads in this call: under the name a field
// has in another view, and under the other spelling (one key with the
// separator in it / nested objects) of a name the separator of the call
// splits or does not split. A key the view reads itself (ns) is never used.
func (g *cgen) foreign(o *gen.Tree, sh *gen.TD, tv *gen.TV, ns map[string]bool, others []*gen.TD) {
	free := func(key string) bool { return !ns[key] && o.Get(key) == nil }
	for i := range sh.Fields {
		f := &sh.Fields[i]
		var ftv *gen.TV
		if tv != nil && i < len(tv.Elems) {
			ftv = tv.Elems[i]
		}
		if f.Inline {
			g.foreign(o, f.T.Shape(), ftv, ns, fieldOthers(others, i))
			continue
		}
		r := rapid.IntRange(0, 99).Draw(g.t, "foreign")
		if r >= 30 {
			continue
		}
		var names []string
		for _, ot := range others {
			if ot = ot.Shape(); i < len(ot.Fields) && !ot.Fields[i].Inline {
				names = append(names, ot.Fields[i].ConfigName())
			}
		}
		if len(names) > 0 {
			name := names[r%len(names)]
			if free(firstSegment(name, g.sep)) && free(name) {
				o.Put(name, g.setting(f.T, ftv, "-", nil))
			}
		}
		// the spelling of the field's own name that this call does not read
		name := f.ConfigName()
		for _, sep := range []string{".", "/"} {
			if !strings.Contains(name, sep) {
				continue
			}
			if g.sep == sep {
				if free(name) {
					o.Put(name, g.setting(f.T, ftv, "-", nil)) // one literal key; the call looks below intermediate objects
				}
			} else if free(firstSegment(name, sep)) {
				putAt(o, name, sep, g.setting(f.T, ftv, "-", nil)) // nested objects; the call looks for one literal key
			}
		}
	}
}

// ---------------------------------------------------------------------------
// fault injection

// site is a place of the configuration where a fault can be injected.
type site struct {
	parent *gen.Tree // container holding the setting
	pos    int       // index into parent.Vals
	t      *gen.TD   // type the setting is unpacked into (pointers stripped)
	fd     *gen.FD   // the field, if the setting belongs directly to a field of a generated struct (tags can be edited)
	owner  string    // kind of the struct the field belongs to (catalogue kind or "struct"), "" for elements
	fname  string    // Go name of that field
	path   []string
	leaf   bool
	before int // mentioned primitive settings processed before this one
	top    int // index of the field of the outermost struct through which the setting is read
}

func stripPtr(t *gen.TD) *gen.TD {
	for t.Shape().Kind == "ptr" {
		t = t.Shape().Elem
	}
	return t
}

// sites lists the mentioned settings in the order Unpack processes them:
// struct fields in declaration order (inline structs in place), map keys
// sorted, list elements by index. Settings of skipped fields are no sites.
// t is the view of the call, sep its path separator.
func sites(t *gen.TD, cfg *gen.Tree, sep string) []site {
	var out []site
	leaves := 0
	top := -1
	var visit func(t *gen.TD, parent *gen.Tree, pos int, fd *gen.FD, owner, fname string, path []string)
	var fields func(st *gen.TD, kind string, o *gen.Tree, path []string, outer bool)
	fields = func(sh *gen.TD, kind string, o *gen.Tree, path []string, outer bool) {
		for i := range sh.Fields {
			f := &sh.Fields[i]
			if outer {
				top = i
			}
			if f.Ignore || f.Unexp {
				continue
			}
			if f.Inline {
				fields(f.T.Shape(), f.T.Kind, o, path, false)
				continue
			}
			if parent, p := locate(o, f.ConfigName(), sep); parent != nil && parent.Vals[p].K != "nil" {
				var fd *gen.FD
				if kind == "struct" {
					fd = f
				}
				visit(f.T, parent, p, fd, baseKind(kind), f.Name, append(append([]string{}, path...), f.ConfigName()))
			}
		}
	}
	visit = func(t *gen.TD, parent *gen.Tree, pos int, fd *gen.FD, owner, fname string, path []string) {
		t = stripPtr(t)
		s := parent.Vals[pos]
		if leafBase(t) != "" {
			out = append(out, site{parent, pos, t, fd, owner, fname, path, true, leaves, top})
			leaves++
			return
		}
		sh := t.Shape()
		switch sh.Kind {
		case "iface":
			// the setting is read into what the place holds; a place that never holds anything accepts any setting
			if sh.Elem != nil {
				visit(sh.Elem, parent, pos, fd, owner, fname, path)
			} else {
				leaves++
			}
		case "struct":
			if s.K != "obj" {
				return
			}
			out = append(out, site{parent, pos, t, fd, owner, fname, path, false, leaves, top})
			fields(sh, t.Kind, s, path, false)
		case "map":
			if s.K != "obj" {
				return
			}
			out = append(out, site{parent, pos, t, fd, owner, fname, path, false, leaves, top})
			idx := make([]int, len(s.Keys))
			for i := range idx {
				idx[i] = i
			}
			sort.Slice(idx, func(a, b int) bool { return s.Keys[idx[a]] < s.Keys[idx[b]] })
			for _, p := range idx {
				visit(sh.Elem, s, p, nil, "", "", append(append([]string{}, path...), s.Keys[p]))
			}
		case "slice", "array":
			if s.IsPrim() {
				// a value that is no list stands for the list of one element
				visit(sh.Elem, parent, pos, nil, "", "", append(append([]string{}, path...), "0"))
				return
			}
			if s.K != "list" {
				return
			}
			for p := range s.Vals {
				visit(sh.Elem, s, p, nil, "", "", append(append([]string{}, path...), fmt.Sprint(p)))
			}
		}
	}
	fields(t.Shape(), t.Kind, cfg, nil, true)
	return out
}

func countLeaves(ss []site) int {
	n := 0
	for _, s := range ss {
		if s.leaf {
			n++
		}
	}
	return n
}

// badValue returns a setting the documented conversion rules reject for the kind.
func badValue(t *rapid.T, td *gen.TD) *gen.Tree {
	base := leafBase(td)
	pick := func(vs ...*gen.Tree) *gen.Tree { return vs[rapid.IntRange(0, len(vs)-1).Draw(t, "bad")] }
	obj := gen.Obj().Put("k", gen.Int(1))
	switch base {
	case "bool":
		return pick(gen.Str("maybe"), obj)
	case "int8":
		return pick(gen.Str("zz"), gen.Int(300), gen.Int(-129), obj)
	case "int16":
		return pick(gen.Str("zz"), gen.Int(40000), obj)
	case "int32":
		return pick(gen.Str("zz"), gen.Int(1<<31), obj)
	case "int", "int64":
		return pick(gen.Str("zz"), gen.Uint(math.MaxUint64), gen.Str("1x"), obj)
	case "uint8":
		return pick(gen.Str("zz"), gen.Int(-1), gen.Uint(256), obj)
	case "uint16":
		return pick(gen.Str("zz"), gen.Int(-1), gen.Uint(65536), obj)
	case "uint32":
		return pick(gen.Str("zz"), gen.Int(-1), gen.Uint(1<<32), obj)
	case "uint", "uint64":
		return pick(gen.Str("zz"), gen.Int(-1), gen.Str("-4"), obj)
	case "float32":
		return pick(gen.Str("zz"), gen.Float(1e300), obj)
	case "float64":
		return pick(gen.Str("zz"), gen.Bool(true), obj)
	case "string":
		return obj
	case "dur":
		return pick(gen.Str("zz"), gen.Str("5 parsecs"), obj)
	case "regexp":
		// An object (or list) setting for a *regexp.Regexp is accepted by the library without error (finding
		// D51: a nil field becomes a pointer to the zero Regexp, a pre-filled one is silently left alone).
		// The class is generated all the same; run discards it while D51 is open. C13_AVOID=D51 is a
		// development aid that does not generate it.
		if avoided()["D51"] {
			return pick(gen.Str("("), gen.Str("[a"))
		}
		return pick(gen.Str("("), gen.Str("[a"), obj, gen.List(gen.Str("a"), gen.Str("b")))
	case "unpstr":
		return gen.Str("bad")
	case "unpint":
		return gen.Int(13)
	}
	panic("c13: no bad value for " + base)
}

func isNumericBase(b string) bool {
	switch b {
	case "int", "int8", "int16", "int32", "int64", "uint", "uint8", "uint16", "uint32", "uint64", "float32", "float64":
		return true
	}
	return false
}

// inject makes one setting (or one absent field) of a call invalid and
// describes it. v is the view of the call (validator tags are written into
// the view and into the description they come from); absent tells whether the
// pre-filled value may be edited to violate a validator of an unmentioned
// field (only sound for a call that starts from the pre-filled value); the
// root fields listed in spare are left alone.
func inject(t *rapid.T, c *Case, st *Step, v *view, absent bool, spare map[int]bool) {
	ss := sites(v.td, st.Cfg, st.Sep)
	nl := countLeaves(ss)
	setValidate := func(fd *gen.FD, tag string) bool {
		src := v.vsrc[fd]
		if src == nil {
			return false // the call reads a validator tag name no field has
		}
		fd.Validate, src.Validate = tag, tag
		return true
	}
	// a validator on a field the configuration does not mention: the pre-filled value is made to violate it
	if absent && v.td.Kind == "struct" && rapid.IntRange(0, 7).Draw(t, "absentfault") == 0 {
		var cand []int
		for i := range v.td.Fields {
			f := &v.td.Fields[i]
			if f.Inline || f.Ignore || f.Unexp || spare[i] || v.vsrc[f] == nil {
				continue
			}
			if s := lookup(st.Cfg, f.ConfigName(), st.Sep); s != nil && s.K != "nil" {
				continue
			}
			if f.T.Kind == "ptr" || (f.T.Shape() == f.T && isNumericBase(leafBase(f.T))) {
				cand = append(cand, i)
			}
		}
		if len(cand) > 0 {
			i := cand[maxOf2(t, len(cand))]
			f := &v.td.Fields[i]
			if f.T.Kind == "ptr" {
				setValidate(f, "required")
				c.P.Elems[i] = &gen.TV{Nil: true}
			} else {
				setValidate(f, "nonzero")
				c.P.Elems[i] = &gen.TV{}
			}
			// settings of all fields declared before it have been processed by then
			before := 0
			for _, s := range ss {
				if s.leaf && s.top < i {
					before++
				}
			}
			st.Fault = &Fault{Kind: "val-absent", Path: []string{f.ConfigName()}, Index: before, Of: nl}
			return
		}
	}
	if len(ss) == 0 {
		return
	}
	s := ss[maxOf2(t, len(ss))]
	f := &Fault{Path: s.path, Index: s.before, Of: nl}
	set := func(v *gen.Tree) { s.parent.Vals[s.pos] = v }
	switch {
	case !s.leaf:
		f.Kind = "shape"
		set(gen.Str("zz"))
	case s.t.Kind == kValInt && rapid.Bool().Draw(t, "vl"):
		f.Kind = "val-leaf"
		set(gen.Int(13))
	case (s.owner == kValStruct && s.fname == "X") || (s.owner == kDefStruct && s.fname == "Z") || (s.owner == kTop && s.fname == "Z"):
		f.Kind = "val-struct"
		set(gen.Int(13))
	case s.t.Kind == kUnpStr:
		f.Kind = "unpacker"
		set(gen.Str("bad"))
	case s.t.Kind == kUnpInt:
		// (an IntUnpacker that has overwritten its receiver before it fails)
		f.Kind = "unpacker"
		if rapid.IntRange(0, 2).Draw(t, "unpintconv") == 0 {
			set(gen.Str("zz"))
		} else {
			set(gen.Int(13))
		}
	case (s.owner == kCfgUnp && s.fname == "Hi") || (s.owner == kAnyUnp && s.fname == "N"):
		// the type's own Unpack has stored every setting of the object in its receiver when it fails
		f.Kind = "unpack-after-store"
		set(gen.Int(13))
	case s.fd != nil && s.t.Shape() == s.t && isNumericBase(leafBase(s.t)) && rapid.IntRange(0, 2).Draw(t, "vt") == 0 && setValidate(s.fd, "nonzero"):
		f.Kind = "val-tag"
		set(gen.Int(0))
	default:
		f.Kind = "conv"
		set(badValue(t, s.t))
	}
	st.Fault = f
}

// topFieldIndex returns the index of the top-level field (inline structs
// count as their own position) that reads the configuration name, or -1.
func topFieldIndex(t *gen.TD, name string) int {
	var has func(sh *gen.TD) bool
	has = func(sh *gen.TD) bool {
		for i := range sh.Fields {
			f := &sh.Fields[i]
			if f.Inline {
				if has(f.T.Shape()) {
					return true
				}
				continue
			}
			if !f.Ignore && !f.Unexp && f.ConfigName() == name {
				return true
			}
		}
		return false
	}
	for i := range t.Fields {
		f := &t.Fields[i]
		if f.Inline {
			if has(f.T.Shape()) {
				return i
			}
			continue
		}
		if !f.Ignore && !f.Unexp && f.ConfigName() == name {
			return i
		}
	}
	return -1
}

// maxOf2 draws an index below n, biased towards the end.
func maxOf2(t *rapid.T, n int) int {
	a := rapid.IntRange(0, n-1).Draw(t, "pos")
	b := rapid.IntRange(0, n-1).Draw(t, "pos2")
	if b > a {
		return b
	}
	return a
}

func genCase(t *rapid.T) Case {
	tg := &tgen{t: t, avoid: avoided(), exportedTwins: true}
	var c Case
	if rapid.IntRange(0, 7).Draw(t, "cattop") == 0 {
		// the target itself is a catalogue struct (InitDefaults and Validate of the struct passed in)
		c.T = td(rapid.SampledFrom(topKinds).Draw(t, "topk"))
	} else {
		c.T = tg.structT(runlog.Pick(3, 4))
	}
	if c.T.Kind == "struct" && rapid.IntRange(0, 5).Draw(t, "alias") == 0 {
		genFieldAlias(t, &c)
	}
	c.P = gen.GenTV(t, &gen.TDCfg{NilPtrElems: true}, c.T, false)
	if rapid.IntRange(0, 11).Draw(t, "ealias") == 0 {
		genElemAlias(t, &c)
	}
	c.Global = rapid.SampledFrom([]string{"", "", "replace", "append", "prepend"}).Draw(t, "global")
	v := makeView(c.T, nil, "", "")
	cg := &cgen{t: t, noMention: noMentionSet(&c)}
	c.Cfg = gen.Obj()
	cg.object(c.Cfg, v.td.Shape(), c.P, "", nil)
	if rapid.IntRange(0, 9).Draw(t, "fault") < 3 {
		st := c.steps()[0]
		inject(t, &c, &st, v, true, aliasRoots(&c))
		c.Fault = st.Fault
	}
	return c
}

// regexpFromContainer recognises the class of finding D51: a field of type
// *regexp.Regexp whose setting is an object or a list.
func regexpFromContainer(view *gen.TD, cfg *gen.Tree, sep string) bool {
	for _, s := range sites(view, cfg, sep) {
		if s.leaf && leafBase(s.t) == "regexp" && s.parent.Vals[s.pos].IsCont() {
			return true
		}
	}
	return false
}
