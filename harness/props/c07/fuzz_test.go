package c07

import (
	"testing"

	ucfg "github.com/elastic/go-ucfg"
	"github.com/elastic/go-ucfg/hjson"
	"github.com/elastic/go-ucfg/json"
	"github.com/elastic/go-ucfg/parse"
	"github.com/elastic/go-ucfg/yaml"
)

// Native coverage-guided fuzz targets (thorough tier only; the campaign cannot
// be pinned to a seed, the saved crasher is the reproducible unit). The oracle
// is the same as in the rapid sub-checks: the call returns.

func FuzzParseValue(f *testing.F) {
	for _, s := range []string{"a,b", `{"a": [1, 2]}`, "[", "{a:", `"\\"`, "'", "[[],{}]", "{a:[1,{b:'c'}],}", `"😀"`, `"\/"`, "{a: 'x' }", "[a,", "{a:1,"} {
		f.Add(s, uint8(31))
	}
	f.Fuzz(func(t *testing.T, s string, flags uint8) {
		cfg := parse.Config{Array: flags&1 != 0, Object: flags&2 != 0, StringDQuote: flags&4 != 0, StringSQuote: flags&8 != 0, IgnoreCommas: flags&16 != 0}
		parse.ValueWithConfig(s, cfg)
	})
}

func FuzzVarExp(f *testing.F) {
	for _, s := range []string{"${a}", "${a:b}", "${a:+b}", "${a:?b}", "$${a}", "${${a}}", "${a.${b}}", "${", "${}", "${a:${b:${c}}}", "x${a}y${a}", "${self}", "${o}", "${l.0}", "$${0},${a}"} {
		f.Add(s, "self")
	}
	f.Fuzz(func(t *testing.T, s string, key string) {
		c, err := ucfg.NewFrom(map[string]interface{}{key: s, "a": "va", "b": 2, "o": map[string]interface{}{"k": s}, "l": []interface{}{s, 1}}, varOpts...)
		if err != nil {
			return
		}
		exercise(c, varOpts)
		if err := goroutinesSettled(); err != nil {
			t.Fatal(err)
		}
	})
}

func FuzzYAML(f *testing.F) {
	for _, s := range []string{"a: 1", "a.b: [1, 2]\na: {c: d}", "- 1\n- {a: b}", "a: ${b}\nb: ${a}", "0: x", "-1: x", "a.-1: x", "? [a]\n: b", "a: &x 1\nb: *x", "a: !!binary aGk=", "5000: x"} {
		f.Add([]byte(s))
	}
	f.Fuzz(func(t *testing.T, b []byte) {
		c, err := yaml.NewConfig(b, varOpts...)
		if err != nil {
			return
		}
		if n := longestList(c); n > 1025 {
			t.Fatalf("list of %d entries", n)
		}
		exercise(c, varOpts)
	})
}

func FuzzJSONHJSON(f *testing.F) {
	f.Add([]byte(`{"a": {"b": [1, "${a}"]}, "a.c": null}`))
	f.Add([]byte(`{"-1": 1, "0x10": [1], "a.-1": 2}`))
	f.Fuzz(func(t *testing.T, b []byte) {
		if c, err := json.NewConfig(b, varOpts...); err == nil {
			exercise(c, varOpts)
		}
		if c, err := hjson.NewConfig(b, varOpts...); err == nil {
			exercise(c, varOpts)
		}
	})
}

func FuzzPathOps(f *testing.F) {
	f.Add("a.b", 0, "l.1", -1, "", 3, uint8(0))
	f.Add("-1", -1, "0x10", 2, "a.-1.b", -5, uint8(1))
	f.Add("", -1, "", -2, "5000", 5000, uint8(5))
	f.Fuzz(func(t *testing.T, n1 string, i1 int, n2 string, i2 int, n3 string, i3 int, flags uint8) {
		c := PathCase{PathSep: flags&1 != 0, NumKeys: flags&2 != 0, Escape: len(n3)%2 == 1}
		if flags&4 != 0 {
			c.MaxIdx = int64(flags >> 3)
			c.MaxIdx0 = c.MaxIdx == 0
		}
		clamp := func(i int) int {
			if i > 1000000 {
				return 1000000
			}
			return i
		}
		names, idxs := []string{n1, n2, n3}, []int{clamp(i1), clamp(i2), clamp(i3)}
		for k := 0; k < nPathOps; k++ {
			c.Ops = append(c.Ops, PathOp{Kind: (k + int(flags>>5)) % nPathOps, Name: names[k%3], Idx: idxs[(k/2)%3]})
		}
		if err := runPathQuiet(c); err != nil {
			t.Fatal(err)
		}
	})
}
