// Package c07 decides property C07: no input makes the library panic, hang,
// leak a goroutine or allocate more list slots than MaxIdx allows.
//
// Every sub-check has the same oracle — the call returns (panics are recovered
// by the harness and reported; fatal errors and hangs are caught through the
// journal and the watchdog of internal/runlog) — plus the goroutine-count and
// list-length invariants where they apply.
package c07

import (
	"fmt"
	"reflect"
	"regexp"
	"runtime"
	"strings"
	"testing"
	"time"
	"unsafe"

	ucfg "github.com/elastic/go-ucfg"
	"github.com/elastic/go-ucfg/diff"
	"github.com/elastic/go-ucfg/hjson"
	"github.com/elastic/go-ucfg/json"
	"github.com/elastic/go-ucfg/parse"
	"github.com/elastic/go-ucfg/yaml"
	"pgregory.net/rapid"

	"verif/harness/internal/runlog"
)

// ---------------------------------------------------------------------------
// helpers

func enumStrings(alpha string, maxLen int, yield func(s string) bool) {
	buf := make([]byte, 0, maxLen)
	var rec func() bool
	rec = func() bool {
		if !yield(string(buf)) {
			return false
		}
		if len(buf) == maxLen {
			return true
		}
		for i := 0; i < len(alpha); i++ {
			buf = append(buf, alpha[i])
			if !rec() {
				return false
			}
			buf = buf[:len(buf)-1]
		}
		return true
	}
	rec()
}

var parseConfigs = func() []parse.Config {
	var out []parse.Config
	for f := 0; f < 32; f++ {
		c := parse.Config{Array: f&1 != 0, Object: f&2 != 0, StringDQuote: f&4 != 0, StringSQuote: f&8 != 0, IgnoreCommas: f&16 != 0}
		if !c.Array && c.Object {
			continue // rejected combination: objects need arrays? kept out as in the package's own validation
		}
		out = append(out, c)
	}
	return out
}()

var baseGoroutines = -1

// goroutinesSettled reports a goroutine leak: the number of goroutines must be
// back at the baseline shortly after a call returned.
func goroutinesSettled() error {
	if baseGoroutines < 0 {
		baseGoroutines = runtime.NumGoroutine()
		return nil
	}
	if runtime.NumGoroutine() <= baseGoroutines {
		return nil
	}
	for i := 0; i < 200; i++ {
		runtime.Gosched()
		if runtime.NumGoroutine() <= baseGoroutines {
			return nil
		}
		time.Sleep(5 * time.Millisecond)
	}
	return fmt.Errorf("goroutine leak: %d goroutines are running one second after the call returned, %d before it", runtime.NumGoroutine(), baseGoroutines)
}

// longestList returns the length of the longest list stored anywhere in c
// (hook: walks the stored tree without evaluating anything).
func longestList(c *ucfg.Config) int {
	max := 0
	var walk func(n ucfg.VerifNode)
	walk = func(n ucfg.VerifNode) {
		if len(n.Arr) > max {
			max = len(n.Arr)
		}
		for _, e := range n.Dict {
			walk(e)
		}
		for _, e := range n.Arr {
			walk(e)
		}
	}
	walk(ucfg.VerifSnapshot(c))
	return max
}

// recNode is a recursive target type: a setting that refers back to an enclosing object must end in an error,
// not in unbounded recursion.
type recNode struct {
	Name string              `config:"n"`
	Next *recNode            `config:"o"`
	A    *recNode            `config:"a"`
	L    []recNode           `config:"l"`
	M    map[string]*recNode `config:"m"`
	LL   recList             `config:"l"`
	OL   map[string]recList  `config:"o"`
}

// recList is a list type whose elements are lists of the same type
type recList []recList

// exercise calls every read entry point on c; only "returns" is asserted.
func exercise(c *ucfg.Config, opts []ucfg.Option) {
	var m map[string]interface{}
	c.Unpack(&m, opts...)
	var a []interface{}
	c.Unpack(&a, opts...)
	var s struct {
		A interface{} `config:"a"`
		B string      `config:"b"`
		L []int       `config:"l"`
	}
	c.Unpack(&s, opts...)
	var rec recNode
	c.Unpack(&rec, opts...)
	var recs map[string]*recNode
	c.Unpack(&recs, opts...)
	var lists map[string][]string
	c.Unpack(&lists, opts...)
	c.FlattenedKeys(opts...)
	for _, k := range c.GetFields() {
		c.String(k, -1, opts...)
		c.Int(k, 0, opts...)
		c.Uint(k, -1, opts...)
		c.Float(k, -1, opts...)
		c.Bool(k, -1, opts...)
		c.Child(k, -1, opts...)
		c.Has(k, 1, opts...)
		c.CountField(k)
		c.PathOf(k, ".")
	}
	n, _ := c.CountField("")
	for i := 0; i < n && i < 4; i++ {
		c.String("", i, opts...)
		c.Child("", i, opts...)
	}
	d := ucfg.New()
	d.Merge(c, opts...)
	d.Merge(c, append([]ucfg.Option{ucfg.AppendValues}, opts...)...)
	diff.CompareConfigs(c, d, opts...)
}

// ---------------------------------------------------------------------------
// (a) parse.Value / ValueWithConfig

type ParseCase struct {
	S string `json:"s"`
}

const parseAlpha = "[]{},:\"'\\$a1- "

func runParse(c ParseCase, r *runlog.R) error {
	rejected := false
	for _, cfg := range parseConfigs {
		if _, err := parse.ValueWithConfig(c.S, cfg); err != nil {
			rejected = true
		}
	}
	if _, err := parse.Value(c.S); err != nil {
		rejected = true
	}
	r.NonTrivialIf(rejected)
	return nil
}

var subParseEnum = runlog.Register(&runlog.Sub[ParseCase]{
	Name: "parse-enum",
	Rule: "every string up to length 5 (quick) / 7 (thorough) over the 14-symbol alphabet `[ ] { } , : \" ' \\ $ a 1 - space`, each parsed under all 24 valid parse.Config flag combinations and by parse.Value; must return. Non-trivial: at least one configuration rejects the string with an error. Cases are distinct by construction.",
	Enum: func(yield func(ParseCase) bool) {
		enumStrings(parseAlpha, runlog.Pick(5, 7), func(s string) bool { return yield(ParseCase{s}) })
	},
	Run: runParse,
})

func TestParseEnum(t *testing.T) { subParseEnum.Enumerate(t, true) }

var hostileFragments = []string{"[", "]", "{", "}", ",", ":", "\"", "'", "\\", "\\\"", "\\\\", "$", "${", "a", "1", "-", " ", "\t", "\n", "null", "true", "1e9", "0x", "-0", "é", "\U0001F600", "\\u00", "\\ud83d", "{a:", "[a,", "'a", "\"a", "a:1", "{a:1,", "[[", "]]", "}}", "{{", "a,b", ", ,", ":a", "{:}", "[,]", "\x00", "\xff",
	"\u00a0", "\u2003", "\u0085", "\f", "\v", "\r", "\u2028", "\ufeff", "[\u00a0]", ",\u2003,", ":\u00a0}", "\r\n"}

func genParseLong(t *rapid.T) ParseCase {
	n := rapid.IntRange(1, 12).Draw(t, "n")
	var b strings.Builder
	for i := 0; i < n; i++ {
		b.WriteString(rapid.SampledFrom(hostileFragments).Draw(t, "frag"))
	}
	return ParseCase{strings.ToValidUTF8(b.String(), "?")}
}

var subParseRand = runlog.Register(&runlog.Sub[ParseCase]{
	Name: "parse-random",
	Rule: "longer strings assembled from 45 hostile fragments (unterminated brackets and quotes, escapes, partial \\u sequences, separators in odd places), parsed under all 24 configurations; must return. Non-trivial: at least one configuration rejects the string.",
	Gen:  genParseLong,
	Run:  runParse,
})

func TestParseRandom(t *testing.T) { subParseRand.Check(t, 40000, 2000000) }

// ---------------------------------------------------------------------------
// (c) strings as settings under VarExp

type VarCase struct {
	S   string `json:"s"`
	Key string `json:"key,omitempty"`
}

const varAlpha = "${}:+?a.0,"

var varOpts = []ucfg.Option{ucfg.PathSep("."), ucfg.VarExp}

func runVar(c VarCase, r *runlog.R) error {
	key := c.Key
	if key == "" {
		key = "a"
	}
	cfg, err := ucfg.NewFrom(map[string]interface{}{
		key: c.S, "b": "v", "0": "z", "o": map[string]interface{}{"k": c.S, "n": 1, "o": c.S, "a": "${o}"}, "l": []interface{}{c.S, 1},
		// the setting under test reached through its alias "element 0 of a value that is no list", directly and
		// through one more reference
		"al": "${" + key + ".0}", "al2": "${al}", "al3": "${" + key + ".0.0}",
	}, varOpts...)
	if err != nil {
		r.NonTrivial()
		return goroutinesSettled()
	}
	failed := false
	var m map[string]interface{}
	if cfg.Unpack(&m, varOpts...) != nil {
		failed = true
	}
	if _, err := cfg.String(key, -1, varOpts...); err != nil {
		failed = true
	}
	exercise(cfg, varOpts)
	// with a resolver and an environment as well
	env := ucfg.MustNewFrom(map[string]interface{}{"e": "env", "a": map[string]interface{}{"x": 1}})
	o2 := append([]ucfg.Option{ucfg.Env(env), ucfg.Resolve(func(name string) (string, parse.Config, error) {
		if name == "r" || name == "0" {
			return "[1,{a: b}]", parse.DefaultConfig, nil
		}
		return "", parse.DefaultConfig, ucfg.ErrMissing
	})}, varOpts...)
	cfg.Unpack(&m, o2...)
	cfg.FlattenedKeys(o2...)
	// list targets follow chains of references
	var lt struct {
		Al  []string       `config:"al"`
		Al2 [1]interface{} `config:"al2"`
		Al3 []int          `config:"al3"`
		K   []interface{}  `config:"o.k"`
	}
	cfg.Unpack(&lt, varOpts...)
	cfg.Unpack(&lt, o2...)
	// a small maximum index also binds text that is parsed after an expansion (a resolver's answer, a spliced
	// string): no list of the result may be longer than what the texts spell out element by element
	small := append([]ucfg.Option{ucfg.MaxIdx(2), ucfg.Resolve(func(name string) (string, parse.Config, error) {
		if name == "r" || name == "nope" {
			return "{l.900: 1, k.0x20.j: [1], 700: x}", parse.DefaultConfig, nil
		}
		return "", parse.DefaultConfig, ucfg.ErrMissing
	})}, varOpts...)
	bound := 8 * (2 + strings.Count(c.S, ","))
	var m2 map[string]interface{}
	if cfg.Unpack(&m2, small...) == nil {
		if n := longestInData(m2); n > bound {
			return fmt.Errorf("unpacked under MaxIdx(2), the result holds a list of %d entries (the texts spell out at most %d)", n, bound)
		}
	}
	for _, k := range []string{key, "al", "al2", "o", "l"} {
		if n, err := cfg.CountField(k, small...); err == nil && n > bound {
			return fmt.Errorf("CountField(%q) under MaxIdx(2) = %d (the texts spell out at most %d entries)", k, n, bound)
		}
		if ch, err := cfg.Child(k, -1, small...); err == nil {
			if n := longestList(ch); n > bound {
				return fmt.Errorf("Child(%q) under MaxIdx(2) holds a list of %d entries (the texts spell out at most %d)", k, n, bound)
			}
		}
	}
	r.NonTrivialIf(failed)
	return goroutinesSettled()
}

func longestInData(v interface{}) int {
	n := 0
	switch x := v.(type) {
	case map[string]interface{}:
		for _, e := range x {
			if k := longestInData(e); k > n {
				n = k
			}
		}
	case []interface{}:
		n = len(x)
		for _, e := range x {
			if k := longestInData(e); k > n {
				n = k
			}
		}
	}
	return n
}

var subVarEnum = runlog.Register(&runlog.Sub[VarCase]{
	Name: "varexp-enum",
	Rule: "every string up to length 4 (quick) / 7 (thorough) over `$ { } : + ? a . 0 ,` stored as a setting (top level, inside an object, inside a list) under PathSep+VarExp, then read through Unpack (map, list, struct), all typed getters, Child, Has, CountField, PathOf, FlattenedKeys, use as merge source (default and append) and CompareConfigs, with and without Env and a resolver whose text parses into a list; must return and leave no goroutine behind. Non-trivial: creating or reading the setting returns an error.",
	Enum: func(yield func(VarCase) bool) {
		enumStrings(varAlpha, runlog.Pick(4, 7), func(s string) bool { return yield(VarCase{S: s}) })
	},
	Run:     runVar,
	Journal: true,
})

func TestVarExpEnum(t *testing.T) { subVarEnum.Enumerate(t, true) }

var varFragments = []string{"${", "}", "$", "$$", "$}", ":", ":+", ":?", "a", "b", "o", "o.k", "l.0", "l", "0", "x", ".", ",", "[", "]", "{", " ", "${a}", "${self}", "${o}", "${l}", "${b:", "${nope:?", "self", "${r}", "${nope}", "{l.900: ", "a.800: 1", ".7", "900", "${a.0}", "${self.0}", "${al}", "${al2}"}

func genVarLong(t *rapid.T) VarCase {
	n := rapid.IntRange(1, 10).Draw(t, "n")
	var b strings.Builder
	for i := 0; i < n; i++ {
		b.WriteString(rapid.SampledFrom(varFragments).Draw(t, "frag"))
	}
	return VarCase{S: b.String(), Key: rapid.SampledFrom([]string{"a", "self", "o.x", "l.2", "b"}).Draw(t, "key")}
}

var subVarRand = runlog.Register(&runlog.Sub[VarCase]{
	Name:    "varexp-random",
	Rule:    "longer expansion strings assembled from 29 fragments (nested references, operators, self references, references to objects and lists), stored under several keys incl. one that makes the reference cyclic; same reads as varexp-enum. Non-trivial: an error is returned somewhere.",
	Gen:     genVarLong,
	Run:     runVar,
	Journal: true,
})

func TestVarExpRandom(t *testing.T) { subVarRand.Check(t, 40000, 1000000) }

// ---------------------------------------------------------------------------
// (b) format loaders on bytes

type LoadCase struct {
	B       []byte `json:"b"`
	PathSep bool   `json:"pathsep,omitempty"`
	Escape  bool   `json:"escape,omitempty"` // EscapePath()
	VarExp  bool   `json:"varexp,omitempty"`
}

var docFragments = []string{
	"a: 1\n", "a.b: [1, 2]\n", "a: {c: d}\n", "- 1\n", "- {a: b}\n", "a: ${b}\n", "b: ${a}\n", "0: x\n", "-1: x\n", "a.-1: x\n", "? [a]\n: b\n", "a: &x 1\n", "b: *x\n",
	"a: !!binary aGk=\n", "{", "}", "[", "]", "\"a\":", "\"a.b\":", "1", "null", "\"${a}\"", ",", ":", " ", "\n", "  ", "a:", "-", "\"", "'", "#", "//", "/*", "*/", "'''", "1e999", "0x1F",
	"{\"a\": {\"b\": [1, \"${a}\"]}, \"a.c\": null}", "99999999999999999999", "-0", "~", "<<: *x\n", "a: |\n  x\n", "\"0\": 1", "\"5000\": 1", "\"1.2\": {}", "\"a..b\": 1", "\".\": 1", "\"\": 1", "\"[a.b]\": 1", "\"[]\": 1", "\"[\": 1", "[a.b]: 1\n", "\"\": {\"\": 1}",
}

func genLoad(t *rapid.T) LoadCase {
	n := rapid.IntRange(1, 10).Draw(t, "n")
	var b []byte
	for i := 0; i < n; i++ {
		if rapid.IntRange(0, 9).Draw(t, "raw") == 0 {
			b = append(b, rapid.Byte().Draw(t, "byte"))
			continue
		}
		b = append(b, rapid.SampledFrom(docFragments).Draw(t, "frag")...)
	}
	return LoadCase{B: b, PathSep: rapid.Bool().Draw(t, "pathsep"), VarExp: rapid.Bool().Draw(t, "varexp"), Escape: rapid.IntRange(0, 2).Draw(t, "escape") == 0}
}

func runLoad(c LoadCase, r *runlog.R) error {
	var opts []ucfg.Option
	if c.PathSep {
		opts = append(opts, ucfg.PathSep("."))
	}
	if c.VarExp {
		opts = append(opts, ucfg.VarExp)
	}
	if c.Escape {
		opts = append(opts, ucfg.EscapePath())
	}
	accepted := 0
	for _, load := range []func([]byte, ...ucfg.Option) (*ucfg.Config, error){yaml.NewConfig, json.NewConfig, hjson.NewConfig} {
		cfg, err := load(c.B, opts...)
		if err != nil {
			continue
		}
		accepted++
		if n := longestList(cfg); n > 1025 {
			return fmt.Errorf("loading %q built a list of %d entries although MaxIdx is 1024", c.B, n)
		}
		exercise(cfg, opts)
	}
	r.NonTrivialIf(accepted > 0 && accepted < 3)
	r.Class(fmt.Sprintf("accepted by %d loaders", accepted))
	return goroutinesSettled()
}

var subLoad = runlog.Register(&runlog.Sub[LoadCase]{
	Name:    "loaders-random",
	Rule:    "byte strings assembled from 50 YAML/JSON/HJSON fragments (anchors, merge keys, tags, numeric and negative keys, dotted keys, references, comments, unterminated tokens) and raw bytes, loaded by yaml/json/hjson.NewConfig with and without PathSep/VarExp/EscapePath and then read through every entry point; must return, leave no goroutine behind and build no list longer than MaxIdx+1. Non-trivial: some but not all loaders accept the document (malformed-but-plausible).",
	Gen:     genLoad,
	Run:     runLoad,
	Journal: true,
})

func TestLoadersRandom(t *testing.T) { subLoad.Check(t, 30000, 1500000) }

// ---------------------------------------------------------------------------
// (d) names and indices given to getters, setters, Has, Remove, Child, CountField

type PathOp struct {
	Kind int    `json:"kind"`
	Name string `json:"name"`
	Idx  int    `json:"idx"`
}

type PathCase struct {
	PathSep bool     `json:"pathsep,omitempty"`
	NumKeys bool     `json:"numkeys,omitempty"`
	MaxIdx  int64    `json:"maxidx,omitempty"`  // 0: default (1024)
	MaxIdx0 bool     `json:"maxidx0,omitempty"` // the option MaxIdx(0): index 0 is the only list index
	Escape  bool     `json:"escape,omitempty"`  // the option EscapePath()
	Ops     []PathOp `json:"ops"`
}

var nameSpellings = []string{"", "a", "b", "l", "p", "n", "a.b", "a.l", "a.l.1", "l.0.k", "l.1", "0", "1", "-1", "-0", "+1", "00", "0x10", "0X1", "0o7", "0b1", "1_0", "1024", "1025", "5000", "1000000", "9223372036854775807", "9223372036854775808", "-9223372036854775808", "18446744073709551616", "a.-1", "a.-1.b", "-1.a", "a..b", ".", "..", "a.", ".a", " 1", "1 ", "1.0", "1e1", "١", "a.0x1", "l.-2", "l.5000", "n.x", "p.x", "p.0", "[a.b]", "[]", "[", "]", "[a].b", "a.[b]", "[a.l].1", "[[]]", "[\n]", "m", "m.1", "m.3"}

var idxValues = []int{-1, -1, -1, 0, 0, 1, 2, 3, -2, -5, 1023, 1024, 1025, 5000, 100000, 1000000, -1 << 31, -1 << 63}

const nPathOps = 14

func genPath(t *rapid.T) PathCase {
	c := PathCase{PathSep: rapid.Bool().Draw(t, "pathsep"), NumKeys: rapid.IntRange(0, 3).Draw(t, "numkeys") == 0}
	c.MaxIdx = rapid.SampledFrom([]int64{0, 0, 0, 1, 7, 5000, -1}).Draw(t, "maxidx")
	if c.MaxIdx < 0 {
		c.MaxIdx, c.MaxIdx0 = 0, true
	}
	c.Escape = rapid.IntRange(0, 3).Draw(t, "escape") == 0
	n := rapid.IntRange(1, 8).Draw(t, "nops")
	// half of the sequences stay with one list: removals, writes at and beyond its end and reads follow each
	// other on the same setting (states that only a history of calls reaches)
	focus := ""
	if rapid.Bool().Draw(t, "focused") {
		focus = rapid.SampledFrom([]string{"m", "l", "a.l", "m.1", "a"}).Draw(t, "focus")
	}
	for i := 0; i < n; i++ {
		if focus != "" && rapid.IntRange(0, 4).Draw(t, "stay") > 0 {
			c.Ops = append(c.Ops, PathOp{Kind: rapid.SampledFrom([]int{4, 4, 4, 0, 1, 2, 3, 12, 13, 7, 5, 10}).Draw(t, "fkind"), Name: focus, Idx: rapid.SampledFrom([]int{0, 0, 1, 2, 3, 4, 5, 6, -1}).Draw(t, "fidx")})
			continue
		}
		c.Ops = append(c.Ops, PathOp{Kind: rapid.IntRange(0, nPathOps-1).Draw(t, "kind"), Name: rapid.SampledFrom(nameSpellings).Draw(t, "name"), Idx: rapid.SampledFrom(idxValues).Draw(t, "idx")})
	}
	return c
}

func pathOpts(c PathCase) ([]ucfg.Option, int) {
	var opts []ucfg.Option
	if c.PathSep {
		opts = append(opts, ucfg.PathSep("."))
	}
	if c.NumKeys {
		opts = append(opts, ucfg.EnableNumKeys(true))
	}
	if c.Escape {
		opts = append(opts, ucfg.EscapePath())
	}
	limit := 1024
	if c.MaxIdx != 0 || c.MaxIdx0 {
		opts = append(opts, ucfg.MaxIdx(c.MaxIdx))
		limit = int(c.MaxIdx)
	}
	return opts, limit
}

func runPath(c PathCase, r *runlog.R) error {
	opts, limit := pathOpts(c)
	cfg := ucfg.MustNewFrom(map[string]interface{}{
		"a": map[string]interface{}{"b": 1, "l": []interface{}{1, "x", nil}},
		"l": []interface{}{map[string]interface{}{"k": true}, 2}, "p": "s", "n": nil,
		"m": []interface{}{0, []interface{}{"p", "q", "r", "s"}, 2, 3, 4, 5},
	})
	hostile, errs := false, 0
	for i, op := range c.Ops {
		var err error
		before := longestList(cfg)
		switch op.Kind {
		case 0:
			err = cfg.SetInt(op.Name, op.Idx, 5, opts...)
		case 1:
			err = cfg.SetString(op.Name, op.Idx, "v", opts...)
		case 2:
			err = cfg.SetBool(op.Name, op.Idx, true, opts...)
		case 3:
			sub := ucfg.New()
			sub.SetFloat(op.Name, op.Idx, 1.5, opts...)
			if n := longestList(sub); n > limit+1 {
				return fmt.Errorf("op %d: SetFloat(%q, %d) on an empty config built a list of %d entries, MaxIdx is %d", i, op.Name, op.Idx, n, limit)
			}
			err = cfg.SetChild(op.Name, op.Idx, sub, opts...)
		case 4:
			_, err = cfg.Remove(op.Name, op.Idx, opts...)
		case 5:
			_, err = cfg.Int(op.Name, op.Idx, opts...)
			cfg.Uint(op.Name, op.Idx, opts...)
			cfg.Float(op.Name, op.Idx, opts...)
		case 6:
			_, err = cfg.String(op.Name, op.Idx, opts...)
			cfg.Bool(op.Name, op.Idx, opts...)
		case 7:
			_, err = cfg.Child(op.Name, op.Idx, opts...)
		case 8:
			_, err = cfg.Has(op.Name, op.Idx, opts...)
			cfg.HasField(op.Name)
		case 9:
			_, err = cfg.CountField(op.Name)
			cfg.PathOf(op.Name, ".")
		case 10:
			err = cfg.Merge(map[string]interface{}{op.Name: 1, "z": map[string]interface{}{op.Name: []int{1, 2}}}, opts...)
		case 11:
			_, err = ucfg.NewFrom(map[string]interface{}{op.Name: map[string]interface{}{op.Name: 1}}, opts...)
		case 12:
			err = cfg.SetUint(op.Name, op.Idx, 7, opts...)
		case 13:
			var m map[string]interface{}
			err = cfg.Unpack(&m, opts...)
			cfg.FlattenedKeys(opts...)
		}
		if err != nil {
			errs++
		}
		if op.Idx < -1 || op.Idx > limit || strings.ContainsAny(op.Name, "-+x_") {
			hostile = true
		}
		// a single name/index may not make a list grow beyond MaxIdx+1 entries (lists that were longer before,
		// or that a merge source spells out element by element, are not index allocations)
		if n := longestList(cfg); n > limit+1 && n > before && op.Kind != 10 && op.Kind != 11 {
			return fmt.Errorf("after op %d (kind %d, name %q, idx %d): a list grew to %d entries (longest before: %d) although MaxIdx is %d", i, op.Kind, op.Name, op.Idx, n, before, limit)
		}
	}
	// nil arguments are inputs too
	cfg.SetChild("zz", -1, nil, opts...)
	cfg.SetChild("l", 0, nil, opts...)
	cfg.Merge(nil, opts...)
	cfg.Merge((*ucfg.Config)(nil), opts...)
	cfg.Merge((*map[string]interface{})(nil), opts...)
	ucfg.NewFrom(nil, opts...)
	cfg.Unpack(nil, opts...)
	cfg.Unpack((*map[string]interface{})(nil), opts...)
	cfg.Unpack(map[string]interface{}{}, opts...)
	// whatever state the sequence left behind is read completely
	var m map[string]interface{}
	cfg.Unpack(&m, opts...)
	cfg.FlattenedKeys(opts...)
	ucfg.New().Merge(cfg, opts...)
	ucfg.NewFrom(map[string]interface{}{"c": cfg}, opts...)
	for _, name := range []string{"m", "l", "a"} {
		cfg.CountField(name)
		if ch, err := cfg.Child(name, -1, opts...); err == nil {
			ch.FlattenedKeys(opts...)
			cfg.Remove(name, 0, opts...)
			ch.GetFields()
		}
	}
	// a configuration that was attached, removed and now gets its former parent attached below it: the tree is
	// acyclic, whatever the configurations remember of their former places
	f := ucfg.New()
	if cfg.SetChild("ring", -1, f, opts...) == nil {
		cfg.Remove("ring", -1, opts...)
		if f.SetChild("m", -1, cfg, opts...) == nil {
			vo := []ucfg.Option{ucfg.PathSep("."), ucfg.VarExp}
			f.Bool("nope", -1, opts...)
			f.Path(".")
			cfg.Path("/")
			f.PathOf("x", ".")
			f.Merge(map[string]interface{}{"r": "${m.p}", "r2": "${nope.x}"}, vo...)
			f.String("r", -1, vo...)
			f.String("r2", -1, vo...)
			f.Int("m.p.q", -1, vo...)
			var fm map[string]interface{}
			f.Unpack(&fm, vo...)
			f.FlattenedKeys(vo...)
			cfg.Child("l", -1, opts...)
			// a fresh configuration below a ring member is not on the ring, its parent links lead into it: a
			// reference and an error path read from there (the sub-check parent-rings varies these shapes)
			below := ucfg.New()
			below.Merge(map[string]interface{}{"r": "${p}"}, vo...)
			if cfg.SetChild("below", -1, below, opts...) == nil {
				below.String("r", -1, vo...)
				below.Int("nope", -1, opts...)
				below.Path(".")
			}
		}
	}
	r.NonTrivialIf(hostile && errs > 0)
	r.ClassIf(errs > 0, "some op returned an error")
	return nil
}

func runPathQuiet(c PathCase) error { return runPath(c, &runlog.R{}) }

var subPath = runlog.Register(&runlog.Sub[PathCase]{
	Name:    "path-ops",
	Rule:    "sequences of 1-8 calls of Set*/SetChild/Remove/typed getters/Child/Has/HasField/CountField/PathOf/Merge/NewFrom/Unpack/FlattenedKeys with names from 61 spellings (incl. bracketed ones) (negative, signed, hex/octal/binary, huge, dotted with empty and negative segments, blanks, non-ASCII digits) and indices from {MinInt64, -2^31, -5, -2, -1, 0..3, 1023..1025, 5000, 1e5, 1e6}, with and without PathSep, EnableNumKeys, EscapePath and MaxIdx in {default, 0, 1, 7, 5000}; half of the sequences stay with one list (removals, writes at and beyond its end, reads), and the state a sequence leaves behind is read completely (Unpack, FlattenedKeys, use as merge source, children); at the end of every sequence the configuration is attached below a configuration it was the parent of before (a ring of stale parent links, D77), references and error paths are read on the ring and from a fresh configuration attached below a ring member; must return, and after every setter no list anywhere is longer than MaxIdx+1. Non-trivial: the sequence contains a hostile name or index and at least one call returned an error.",
	Gen:     genPath,
	Run:     runPath,
	Journal: true,
})

func TestPathOps(t *testing.T) { subPath.Check(t, 40000, 3000000) }

// ---------------------------------------------------------------------------
// (d2) parent links that are no tree: rings of stale parent links (D77) and configurations below them
//
// A configuration keeps the parent it was attached to first. The parent links of all configurations therefore form a
// functional graph, and histories of attach/detach/attach make every shape of such a graph reachable while the stored
// data stays an ordinary tree: a ring of any length, chains of configurations that lead INTO a ring without being on
// it, chains whose link into the ring is stale as well. Everything that walks parent links (the root lookup of a
// reference, the path in an error message, Path/PathOf) has to return on all of them.

type RingTail struct {
	At    int    `json:"at"`              // the ring member (index mod ring length) the chain hangs below
	Depth int    `json:"depth"`           // configurations in the chain
	How   int    `json:"how,omitempty"`   // 0: fresh configurations attached top-down with SetChild; 1: one NewFrom of nested objects attached with SetChild; 2: nested objects merged into the ring member (the library creates the chain); 3: like 0, attached bottom-up
	Ref   string `json:"ref"`             // text stored under "r" and as element of the list "l" (parsed under VarExp)
	Early bool   `json:"early,omitempty"` // attached before the ring is closed
	Cut   bool   `json:"cut,omitempty"`   // removed from the ring member again before it is read: its link into the ring is stale too
}

type RingCase struct {
	Len    int        `json:"len"`              // configurations chained up before the ring is closed; 0: no ring at all (control)
	Link   int        `json:"link,omitempty"`   // how ring members are attached to each other: 0 by name, 1 by a dotted name (the intermediate object joins the ring), 2 by name and index (a list joins the ring)
	Detach int        `json:"detach,omitempty"` // how the first link is cut: 0 Remove, 1 overwritten by SetString, 2 overwritten by SetChild of another configuration, 3 overwritten by Merge
	Tails  []RingTail `json:"tails"`
	Env    bool       `json:"env,omitempty"` // the deepest configuration of every chain also serves as Env of a reference in an unrelated configuration
}

var ringRefs = []string{"${q}", "${q}", "${y.q}", "x${q}y", "${q:dflt}", "${nope}", "${${k}}", "${nope:?msg}", "${r}", "${x.q}", "${z.r}", "${q:+alt}", "${nope:${q}}", "$${q}", "plain", "${q.0}", "${l.0}", "${z0.r}", "${}"}

func genRing(t *rapid.T) RingCase {
	c := RingCase{
		Len:    rapid.SampledFrom([]int{2, 3, 2, 4, 0, 2, 5, 3, 9}).Draw(t, "len"),
		Link:   rapid.SampledFrom([]int{0, 1, 0, 2}).Draw(t, "link"),
		Detach: rapid.SampledFrom([]int{0, 1, 0, 2, 3}).Draw(t, "detach"),
		Env:    rapid.IntRange(0, 3).Draw(t, "env") == 3,
	}
	n := rapid.SampledFrom([]int{1, 1, 2, 1, 3}).Draw(t, "ntails")
	for i := 0; i < n; i++ {
		c.Tails = append(c.Tails, RingTail{
			At:    rapid.IntRange(0, 4).Draw(t, "at"),
			Depth: rapid.SampledFrom([]int{1, 2, 1, 3, 1, 18, 2, 40}).Draw(t, "depth"),
			How:   rapid.IntRange(0, 3).Draw(t, "how"),
			Ref:   rapid.SampledFrom(ringRefs).Draw(t, "ref"),
			Early: rapid.IntRange(0, 3).Draw(t, "early") == 3,
			Cut:   rapid.IntRange(0, 4).Draw(t, "cut") == 4,
		})
	}
	return c
}

var ringOpts = []ucfg.Option{ucfg.PathSep("."), ucfg.VarExp}

// nestedTail is the data of a chain of d objects below each other; the references live at both ends of a long
// chain, at every level of a short one.
func nestedTail(d int, ref string) map[string]interface{} {
	m := map[string]interface{}{"r": ref, "l": []interface{}{ref, 1}}
	for j := d - 2; j >= 0; j-- {
		up := map[string]interface{}{"z": m}
		if d <= 3 || j == 0 {
			up["r"] = ref
		}
		m = up
	}
	return m
}

// attachTail builds the chain below member and returns handles to its configurations, top first (only the top
// and the deepest one for chains the library creates).
func attachTail(member *ucfg.Config, name string, tl RingTail) []*ucfg.Config {
	d := tl.Depth
	if d < 1 {
		d = 1
	}
	var hs []*ucfg.Config
	switch tl.How {
	case 0, 3:
		for j := 0; j < d; j++ {
			h := ucfg.New()
			if d <= 3 || j == 0 || j == d-1 {
				h.Merge(map[string]interface{}{"r": tl.Ref, "l": []interface{}{tl.Ref, 1}}, ringOpts...)
			}
			hs = append(hs, h)
		}
		if tl.How == 0 {
			member.SetChild(name, -1, hs[0], ringOpts...)
			for j := 1; j < d; j++ {
				hs[j-1].SetChild("z", -1, hs[j], ringOpts...)
			}
		} else {
			for j := d - 1; j >= 1; j-- {
				hs[j-1].SetChild("z", -1, hs[j], ringOpts...)
			}
			member.SetChild(name, -1, hs[0], ringOpts...)
		}
		return hs
	case 1:
		top, err := ucfg.NewFrom(nestedTail(d, tl.Ref), ringOpts...)
		if err != nil {
			return nil
		}
		member.SetChild(name, -1, top, ringOpts...)
	default:
		member.Merge(map[string]interface{}{name: nestedTail(d, tl.Ref)}, ringOpts...)
	}
	h, err := member.Child(name, -1, ringOpts...)
	for j := 0; err == nil && h != nil; j++ {
		hs = append(hs, h)
		if j >= d-1 {
			break
		}
		h, err = h.Child("z", -1, ringOpts...)
	}
	return hs
}

func runRing(c RingCase, r *runlog.R) error {
	n := c.Len
	if n < 2 {
		n = 1
	}
	ring := make([]*ucfg.Config, n)
	for i := range ring {
		ring[i] = ucfg.New()
		ring[i].SetString("q", -1, fmt.Sprintf("from-%d", i))
		ring[i].SetString("k", -1, "q")
	}
	attach := func(parent *ucfg.Config, name string, child *ucfg.Config) {
		switch c.Link {
		case 1:
			parent.SetChild(name+".k", -1, child, ringOpts...)
		case 2:
			parent.SetChild(name, 0, child, ringOpts...)
		default:
			parent.SetChild(name, -1, child, ringOpts...)
		}
	}
	tails := make([][]*ucfg.Config, len(c.Tails))
	hang := func(early bool) {
		for ti, tl := range c.Tails {
			if tl.Early != early {
				continue
			}
			at := tl.At % n
			name := fmt.Sprintf("z%d", ti)
			tails[ti] = attachTail(ring[at], name, tl)
			if tl.Cut {
				ring[at].Remove(name, -1, ringOpts...)
			}
		}
	}
	// the chain ring[0] > ring[1] > ... > ring[n-1]; the first link is cut, then ring[0] goes below ring[n-1]
	for i := 0; i+1 < n; i++ {
		attach(ring[i], "x", ring[i+1])
	}
	hang(true)
	if n >= 2 {
		switch c.Detach {
		case 1:
			ring[0].SetString("x", -1, "gone", ringOpts...)
		case 2:
			ring[0].SetChild("x", -1, ucfg.MustNewFrom(map[string]interface{}{"q": "other"}), ringOpts...)
		case 3:
			ring[0].Merge(map[string]interface{}{"x": 1}, ringOpts...)
		default:
			ring[0].Remove("x", -1, ringOpts...)
		}
		if ch, err := ring[0].Child("x", -1, ringOpts...); err == nil && ch != nil {
			if ring[1].Parent() != nil && (ch == ring[1] || ch == ring[1].Parent()) {
				// still attached (a cut that did not cut): closing the ring would store a cyclic tree, which is no
				// input of this sub-check
				r.Discard()
				return nil
			}
		}
		attach(ring[n-1], "y", ring[0])
	}
	hang(false)

	resolved, failed, rho := 0, 0, false
	read := func(tc *ucfg.Config, full bool) {
		if _, err := tc.String("r", -1, ringOpts...); err == nil {
			resolved++
		} else {
			failed++
		}
		tc.Int("r", -1, ringOpts...)      // a type mismatch names the path of the setting
		tc.Child("nope", -1, ringOpts...) // so does a missing setting
		tc.String("l", 0, ringOpts...)
		tc.Path(".")
		tc.PathOf("r", "/")
		var m map[string]interface{}
		tc.Unpack(&m, ringOpts...)
		var s struct {
			R int `config:"r"`
			N int `config:"nope" validate:"required"`
		}
		tc.Unpack(&s, ringOpts...)
		tc.FlattenedKeys(ringOpts...)
		if !full {
			return
		}
		exercise(tc, ringOpts)
		ucfg.NewFrom(map[string]interface{}{"c": tc, "r": "${c.r}"}, ringOpts...)
		if c.Env {
			e := ucfg.MustNewFrom(map[string]interface{}{"e": "${q}", "e2": "${nope2}", "e3": "${r}"}, ringOpts...)
			eo := append([]ucfg.Option{ucfg.Env(tc)}, ringOpts...)
			e.String("e", -1, eo...)
			e.String("e2", -1, eo...)
			e.Unpack(&m, eo...)
			e.FlattenedKeys(eo...)
		}
	}
	for ti, hs := range tails {
		tl := c.Tails[ti]
		if len(hs) == 0 {
			continue
		}
		if c.Len >= 2 && strings.Contains(tl.Ref, "${") {
			rho = true
		}
		for j, h := range hs {
			if j == len(hs)-1 {
				read(h, true)
			} else if j == 0 || len(hs) <= 3 {
				read(h, false)
			}
		}
		// the same settings read from above, through the ring member
		at := ring[tl.At%n]
		name := fmt.Sprintf("z%d", ti)
		at.String(name+".r", -1, ringOpts...)
		at.String(name+".z.r", -1, ringOpts...)
		at.Int(name+".z.nope", -1, ringOpts...)
	}
	// the ring members themselves, and the stored tree from its top (ring[1] after the cut)
	for i := 0; i < n && i < 3; i++ {
		var m map[string]interface{}
		ring[i].Unpack(&m, ringOpts...)
		ring[i].FlattenedKeys(ringOpts...)
		ring[i].Path(".")
		ring[i].Bool("nope", -1, ringOpts...)
		ring[i].String("y.q", -1, ringOpts...)
	}

	r.NonTrivialIf(rho)
	switch {
	case c.Len < 2:
		r.Class("no ring (control)")
	case c.Len <= 3:
		r.Class(fmt.Sprintf("ring of %d configurations", c.Len))
	default:
		r.Class("ring of 4 and more configurations")
	}
	r.ClassIf(c.Len >= 2 && c.Link == 1, "ring through intermediate objects (dotted names)")
	r.ClassIf(c.Len >= 2 && c.Link == 2, "ring through lists (name and index)")
	r.ClassIf(c.Len >= 2 && c.Detach != 0, "first link cut by overwriting (Set*/SetChild/Merge)")
	for ti, tl := range c.Tails {
		if len(tails[ti]) == 0 || c.Len < 2 {
			continue
		}
		switch {
		case tl.Depth <= 1:
			r.Class("chain of 1 below the ring")
		case tl.Depth <= 3:
			r.Class("chain of 2-3 below the ring")
		default:
			r.Class("chain of 18+ below the ring")
		}
		r.ClassIf(tl.How == 1, "chain from NewFrom (nested objects)")
		r.ClassIf(tl.How == 2, "chain created by Merge into the ring member")
		r.ClassIf(tl.Early, "chain attached before the ring closes")
		r.ClassIf(tl.Cut, "chain removed again (stale link into the ring)")
		r.ClassIf(tl.At%n != 0, "chain below another member than the first")
	}
	r.ClassIf(rho && resolved > 0, "a reference below the ring resolved")
	r.ClassIf(rho && failed > 0, "a reference below the ring ended in an error")
	r.ClassIf(rho && c.Env, "configuration below the ring used as Env")
	return goroutinesSettled()
}

var subRing = runlog.Register(&runlog.Sub[RingCase]{
	Name:    "parent-rings",
	Rule:    "shapes of the parent-link graph that attach/detach histories reach while the stored data stays a tree (a configuration keeps the parent it was attached to first, D77): a chain of 2-9 fresh configurations attached below each other by name, dotted name or name+index, the first link cut (Remove, or overwritten by SetString/SetChild/Merge) and the first configuration attached below the last - a ring of parent links; 1-3 chains of 1-3, 18 or 40 configurations hang below ring members without being on the ring (fresh configurations attached top-down or bottom-up, one NewFrom of nested objects, nested objects merged into the member; before or after the ring closes; optionally removed again so that their link into the ring is stale too) and hold a text from 19 reference spellings (plain, dotted, spliced, nested, with :default/:+/:? operators, missing, self-referencing, escaped) as setting and list element under PathSep+VarExp. Every level of a short chain, both ends of a long one, is read through String/Int (type mismatch), Child (missing), index getter, Path/PathOf, Unpack (map, struct with a required field), FlattenedKeys; the deepest one also through every entry point of `exercise`, as a NewFrom value and (1 in 4) as Env of an unrelated configuration; then the settings are read by path through the ring member, and the ring members are unpacked. Len 0 is the control (a plain tree). Must return (watchdog) and leave no goroutine behind; which root a reference finds on a ring is not asserted (the statement is silent). Non-trivial: a ring exists and a chain below it holds a text with a reference.",
	Gen:     genRing,
	Run:     runRing,
	Journal: true,
})

func TestParentRings(t *testing.T) { subRing.Check(t, 1600, 150000) }

// ---------------------------------------------------------------------------
// (e) arbitrary unpack targets and (f) arbitrary merge sources

// OT describes a (possibly unsupported) Go type.
type OT struct {
	K string `json:"k"` // base kind name, or ptr slice array map struct
	E *OT    `json:"e,omitempty"`
	N int    `json:"n,omitempty"`
	F []OF   `json:"f,omitempty"`
}

type OF struct {
	Tag string `json:"tag"`
	Val string `json:"val,omitempty"`
	T   *OT    `json:"t"`
}

type NStr string
type NInt int
type NBool bool
type NFloat float32
type NUint uint16
type NDur time.Duration

// named pointer types
type NPtr *int
type NPtrPtr *NPtr
type NPtrStruct *struct {
	X int `config:"x"`
}

// interface types with methods the library looks for, and types implementing them with pointer receivers
type unpIface interface{ Unpack(*ucfg.Config) error }
type implAll struct {
	X int `config:"x"`
}

func (i *implAll) Unpack(c *ucfg.Config) error { return nil }
func (i *implAll) InitDefaults()               { i.X = 1 }
func (i *implAll) Validate() error             { return nil }
func (i *implAll) String() string              { return "impl" }
func (i *implAll) Error() string               { return "impl" }

// methods named Unpack that match none of the Unpacker interfaces
type unpNoResult struct{ X int }

func (u *unpNoResult) Unpack(c *ucfg.Config) {}

type unpTwoResults struct{ X int }

func (u *unpTwoResults) Unpack(c *ucfg.Config) (int, error) { return 0, nil }

type unpTwoParams struct{ X int }

func (u *unpTwoParams) Unpack(a, b int) error { return nil }

type unpOtherParam struct{ X int }

func (u *unpOtherParam) Unpack(m map[string]int) error { return nil }

type unpValueRecv struct{ X int }

func (u unpValueRecv) Unpack(c *ucfg.Config) error { return nil }

type unpInt int64

func (u *unpInt) Unpack(v int64) error { *u = unpInt(v); return nil }

type unpNoErr struct{ X int }

func (u *unpNoErr) Unpack(c *ucfg.Config) string { return "" }

var ifaceImpl = reflect.ValueOf(&implAll{})

// Config-like merge sources (D79): a Config handed over by value, a named type convertible to Config, and named
// empty interface types that `fill` loads with such values (by value, by pointer, by pointer to pointer).
type MyCfg ucfg.Config
type ifCfgVal interface{}
type ifMyCfgVal interface{}
type ifMyCfgPtr interface{}
type ifCfgPtrPtr interface{}

var (
	tCfgVal     = reflect.TypeOf(ucfg.Config{})
	tMyCfg      = reflect.TypeOf(MyCfg{})
	tIfCfgVal   = reflect.TypeOf((*ifCfgVal)(nil)).Elem()
	tIfMyCfgVal = reflect.TypeOf((*ifMyCfgVal)(nil)).Elem()
	tIfMyCfgPtr = reflect.TypeOf((*ifMyCfgPtr)(nil)).Elem()
	tIfCfgPP    = reflect.TypeOf((*ifCfgPtrPtr)(nil)).Elem()
)

// cfgKinds are the base kinds that hold a Config by value somewhere: their zero value is the zero Config, which is
// no source (reading decision 20), so they are generated pre-filled only.
var cfgKinds = []string{"Config", "mycfg", "ifcfgval", "ifmycfgval", "ifmycfgptr", "ifcfgpp"}

func liveConfig() *ucfg.Config {
	return ucfg.MustNewFrom(map[string]interface{}{"k": 1, "o": map[string]interface{}{"x": true}, "l": []interface{}{"e"}})
}

func (o *OT) hasCfgKind() bool {
	for _, k := range cfgKinds {
		if o.has(k) {
			return true
		}
	}
	return false
}

var oddBase = map[string]reflect.Type{
	"nptr": reflect.TypeOf(NPtr(nil)), "nptrptr": reflect.TypeOf(NPtrPtr(nil)), "nptrstruct": reflect.TypeOf(NPtrStruct(nil)),
	"unpiface": reflect.TypeOf((*unpIface)(nil)).Elem(), "initiface": reflect.TypeOf((*ucfg.Initializer)(nil)).Elem(), "validiface": reflect.TypeOf((*ucfg.Validator)(nil)).Elem(),
	"unp0": reflect.TypeOf(unpNoResult{}), "unp2": reflect.TypeOf(unpTwoResults{}), "unp2p": reflect.TypeOf(unpTwoParams{}), "unpother": reflect.TypeOf(unpOtherParam{}),
	"unpval": reflect.TypeOf(unpValueRecv{}), "unpint": reflect.TypeOf(unpInt(0)), "unpnoerr": reflect.TypeOf(unpNoErr{}), "implall": reflect.TypeOf(implAll{}),
	"chan": reflect.TypeOf(make(chan int)), "func": reflect.TypeOf(func() {}), "complex": reflect.TypeOf(complex128(0)), "uintptr": reflect.TypeOf(uintptr(0)),
	"map[int]": reflect.TypeOf(map[int]string{}), "error": reflect.TypeOf((*error)(nil)).Elem(), "unsafe": reflect.TypeOf(unsafe.Pointer(nil)),
	"stringer": reflect.TypeOf((*fmt.Stringer)(nil)).Elem(), "time": reflect.TypeOf(time.Time{}), "[0]int": reflect.TypeOf([0]int{}), "struct{}": reflect.TypeOf(struct{}{}),
	"iface": reflect.TypeOf((*interface{})(nil)).Elem(), "*Config": reflect.TypeOf((*ucfg.Config)(nil)), "map[string]*Config": reflect.TypeOf(map[string]*ucfg.Config{}),
	"int": reflect.TypeOf(int(0)), "string": reflect.TypeOf(""), "bool": reflect.TypeOf(false), "float": reflect.TypeOf(1.5), "dur": reflect.TypeOf(time.Second),
	"[]byte": reflect.TypeOf([]byte{}), "map[iface]iface": reflect.TypeOf(map[interface{}]interface{}{}), "Config": reflect.TypeOf(ucfg.Config{}),
	"nbool": reflect.TypeOf(NBool(false)), "nfloat": reflect.TypeOf(NFloat(0)), "nuint": reflect.TypeOf(NUint(0)), "ndur": reflect.TypeOf(NDur(0)),
	"map[nstr]": reflect.TypeOf(map[NStr]int{}), "map[nstr]iface": reflect.TypeOf(map[NStr]interface{}{}), "reclist": reflect.TypeOf(recList{}),
	"regexp": reflect.TypeOf((*regexp.Regexp)(nil)), "regexpval": reflect.TypeOf(regexp.Regexp{}), "rec": reflect.TypeOf(recNode{}),
	"mycfg": tMyCfg, "ifcfgval": tIfCfgVal, "ifmycfgval": tIfMyCfgVal, "ifmycfgptr": tIfMyCfgPtr, "ifcfgpp": tIfCfgPP,
	"*iface": reflect.TypeOf((*interface{})(nil)), "[]*iface": reflect.TypeOf([]*interface{}{}), "nstr": reflect.TypeOf(NStr("")), "nint": reflect.TypeOf(NInt(0)), "uint8": reflect.TypeOf(uint8(0)), "float32": reflect.TypeOf(float32(0)),
}

var oddNames = func() []string {
	names := []string{"chan", "func", "complex", "uintptr", "map[int]", "error", "unsafe", "stringer", "time", "[0]int", "struct{}", "iface", "*Config", "map[string]*Config",
		"int", "string", "bool", "float", "dur", "[]byte", "map[iface]iface", "nstr", "nint", "uint8", "float32", "*iface", "[]*iface", "nbool", "nfloat", "nuint", "ndur", "regexp", "regexpval", "rec", "map[nstr]", "map[nstr]iface", "reclist",
		"nptr", "nptrptr", "nptrstruct", "unpiface", "initiface", "validiface", "unp0", "unp2", "unp2p", "unpother", "unpval", "unpint", "unpnoerr", "implall"}
	return names
}()

var (
	oddTags = []string{"a", "b", "l", "o", "n", ",inline", "a,replace", "l,append", "l,prepend", ",ignore", "o.x", "zz", "r", "d", "t", "f", "t", "k"}
	oddVals = []string{"", "", "required", "nonzero", "positive", "min=1", "max=1s", "bogus", "min=x"}
)

// sourceNames: the catalogue of merge sources is the one of the targets plus the Config-like kinds (placed in the
// middle of the list: rapid prefers the front, which stays with the kinds that are rejected with an error)
var sourceNames = append(append(append([]string{}, oddNames[:24]...), cfgKinds...), oddNames[24:]...)

func genOT(t *rapid.T, depth int) *OT { return genOTOf(t, depth, oddNames) }

func genOTOf(t *rapid.T, depth int, names []string) *OT {
	k := rapid.IntRange(0, 8).Draw(t, "k")
	if depth <= 0 || k < 4 {
		return &OT{K: rapid.SampledFrom(names).Draw(t, "odd")}
	}
	switch k {
	case 4:
		return &OT{K: "ptr", E: genOTOf(t, depth-1, names)}
	case 5:
		return &OT{K: "slice", E: genOTOf(t, depth-1, names)}
	case 6:
		return &OT{K: "array", N: rapid.IntRange(0, 2).Draw(t, "n"), E: genOTOf(t, depth-1, names)}
	case 7:
		return &OT{K: "map", E: genOTOf(t, depth-1, names)}
	}
	n := rapid.IntRange(1, 3).Draw(t, "nf")
	ot := &OT{K: "struct"}
	for i := 0; i < n; i++ {
		ot.F = append(ot.F, OF{Tag: rapid.SampledFrom(oddTags).Draw(t, "tag"), Val: rapid.SampledFrom(oddVals).Draw(t, "val"), T: genOTOf(t, depth-1, names)})
	}
	return ot
}

func (o *OT) typ() reflect.Type {
	if t, ok := oddBase[o.K]; ok {
		return t
	}
	switch o.K {
	case "ptr":
		return reflect.PtrTo(o.E.typ())
	case "slice":
		return reflect.SliceOf(o.E.typ())
	case "array":
		return reflect.ArrayOf(o.N, o.E.typ())
	case "map":
		return reflect.MapOf(reflect.TypeOf(""), o.E.typ())
	case "struct":
		var fs []reflect.StructField
		for i, f := range o.F {
			st := fmt.Sprintf(`config:"%s"`, f.Tag)
			if f.Val != "" {
				st += fmt.Sprintf(` validate:"%s"`, f.Val)
			}
			fs = append(fs, reflect.StructField{Name: fmt.Sprintf("F%d", i), Type: f.T.typ(), Tag: reflect.StructTag(st)})
		}
		return reflect.StructOf(fs)
	}
	panic("unknown odd kind " + o.K)
}

func (o *OT) has(kind string) bool {
	if o.K == kind {
		return true
	}
	if o.E != nil && o.E.has(kind) {
		return true
	}
	for _, f := range o.F {
		if f.T.has(kind) {
			return true
		}
	}
	return false
}

// fill stores non-zero content where that is possible without the library:
// non-nil pointers, one-element slices and maps, live channels and functions.
func fill(v reflect.Value, depth int) {
	if depth > 6 {
		return
	}
	switch v.Kind() {
	case reflect.Ptr:
		if v.Type() == reflect.TypeOf((*ucfg.Config)(nil)) {
			v.Set(reflect.ValueOf(ucfg.MustNewFrom(map[string]interface{}{"k": 1})))
			return
		}
		p := reflect.New(v.Type().Elem())
		fill(p.Elem(), depth+1)
		v.Set(p)
	case reflect.Slice:
		s := reflect.MakeSlice(v.Type(), 1, 1)
		fill(s.Index(0), depth+1)
		v.Set(s)
	case reflect.Array:
		for i := 0; i < v.Len(); i++ {
			fill(v.Index(i), depth+1)
		}
	case reflect.Map:
		m := reflect.MakeMap(v.Type())
		e := reflect.New(v.Type().Elem()).Elem()
		fill(e, depth+1)
		k := reflect.New(v.Type().Key()).Elem()
		switch k.Kind() {
		case reflect.String:
			k.SetString("k")
		case reflect.Interface:
			k.Set(reflect.ValueOf("k"))
		}
		m.SetMapIndex(k, e)
		v.Set(m)
	case reflect.Struct:
		switch v.Type() {
		case tCfgVal:
			// a Config by value: a copy of one that a constructor made (the zero Config is no input)
			v.Set(reflect.ValueOf(*liveConfig()))
			return
		case tMyCfg:
			v.Set(reflect.ValueOf(MyCfg(*liveConfig())))
			return
		case reflect.TypeOf(time.Time{}):
			return
		}
		for i := 0; i < v.NumField(); i++ {
			if v.Field(i).CanSet() {
				fill(v.Field(i), depth+1)
			}
		}
	case reflect.Chan:
		v.Set(reflect.MakeChan(v.Type(), 1))
	case reflect.Func:
		v.Set(reflect.MakeFunc(v.Type(), func([]reflect.Value) []reflect.Value { return nil }))
	case reflect.Int, reflect.Int64:
		v.SetInt(-5)
	case reflect.Uint8, reflect.Uintptr:
		v.SetUint(3)
	case reflect.String:
		v.SetString("s")
	case reflect.Bool:
		v.SetBool(true)
	case reflect.Float64, reflect.Float32:
		v.SetFloat(1.5)
	case reflect.Complex128:
		v.SetComplex(complex(1, 2))
	case reflect.Interface:
		switch v.Type() {
		case tIfCfgVal:
			v.Set(reflect.ValueOf(*liveConfig()))
			return
		case tIfMyCfgVal:
			v.Set(reflect.ValueOf(MyCfg(*liveConfig())))
			return
		case tIfMyCfgPtr:
			m := MyCfg(*liveConfig())
			v.Set(reflect.ValueOf(&m))
			return
		case tIfCfgPP:
			p := liveConfig()
			v.Set(reflect.ValueOf(&p))
			return
		}
		if v.NumMethod() == 0 {
			v.Set(reflect.ValueOf(map[string]interface{}{"i": 1}))
		} else if ifaceImpl.Type().AssignableTo(v.Type()) {
			// a non-empty interface holds a pointer to a type whose methods have pointer receivers
			v.Set(reflect.ValueOf(&implAll{X: 2}))
		}
	}
}

type TargetCase struct {
	T      *OT  `json:"t"`
	Filled bool `json:"filled,omitempty"`
}

func genTarget(t *rapid.T) TargetCase {
	return TargetCase{T: genOT(t, 3), Filled: rapid.Bool().Draw(t, "filled")}
}

func targetConfigs(opts []ucfg.Option) []*ucfg.Config {
	c := ucfg.MustNewFrom(map[string]interface{}{
		"a": 1, "b": "str", "l": []interface{}{1, "x", map[string]interface{}{"k": true}, nil, []int{1}},
		"o": map[string]interface{}{"x": 1.5, "y": "${a}"}, "n": nil, "r": "${o}", "d": "1s", "t": true, "f": 2.5, "k": map[string]interface{}{"k": map[string]interface{}{"k": 2}},
	}, opts...)
	lc := ucfg.MustNewFrom([]interface{}{1, map[string]interface{}{"a": 2}}, opts...)
	ec := ucfg.New()
	return []*ucfg.Config{c, lc, ec}
}

func runTarget(c TargetCase, r *runlog.R) error {
	// the zero value ucfg.Config{} (not created by New) is not a supported receiver or target (reading decision 20)
	if c.T.hasCfgKind() {
		r.Discard()
		return nil
	}
	opts := varOpts
	typ := c.T.typ()
	errs := 0
	note := func(err error) {
		if err != nil {
			errs++
		}
	}
	mk := func() reflect.Value {
		p := reflect.New(typ)
		if c.Filled {
			fill(p.Elem(), 0)
		}
		return p
	}
	for _, cfg := range targetConfigs(opts) {
		p := mk()
		note(cfg.Unpack(p.Interface(), opts...))           // pointer to (pre-filled) value
		note(cfg.Unpack(p.Interface(), opts...))           // a second time over the first result
		note(cfg.Unpack(mk().Elem().Interface(), opts...)) // by value (incl. nil maps, nil pointers)
		note(cfg.Unpack(reflect.Zero(typ).Interface(), opts...))
		pp := reflect.New(p.Type())
		pp.Elem().Set(mk())
		note(cfg.Unpack(pp.Interface(), opts...))                    // through a pointer chain
		note(cfg.Unpack(reflect.New(p.Type()).Interface(), opts...)) // pointer to nil pointer
		note(cfg.Unpack(mk().Interface(), append([]ucfg.Option{ucfg.AppendValues}, opts...)...))
	}
	r.NonTrivialIf(errs > 0)
	r.ClassIf(c.Filled, "pre-filled target")
	return goroutinesSettled()
}

var subTargets = runlog.Register(&runlog.Sub[TargetCase]{
	Name:    "unpack-targets",
	Rule:    "random target types nested up to 3 levels over 25 base types incl. unsupported ones (chan, func, complex, uintptr, map[int]T, non-empty interfaces, unsafe.Pointer, time.Time, [0]int, *Config, *interface{}, named string/int) with random config and validate tags (incl. malformed ones); each unpacked from a dictionary, a list and an empty config as zero value, pre-filled, by value, as nil, through pointer chains, twice, and with a global append policy; must return. Non-trivial: at least one call returns an error.",
	Gen:     genTarget,
	Run:     runTarget,
	Journal: true, // a target type that makes Unpack allocate without bound kills the worker before the watchdog fires
})

func TestUnpackTargets(t *testing.T) { subTargets.Check(t, 30000, 1500000) }

func genSource(t *rapid.T) TargetCase {
	c := TargetCase{T: genOTOf(t, 3, sourceNames), Filled: rapid.Bool().Draw(t, "filled")}
	if c.T.hasCfgKind() {
		c.Filled = true
	}
	return c
}

func runSource(c TargetCase, r *runlog.R) error {
	cfgish := c.T.hasCfgKind()
	// the zero value ucfg.Config{} (not created by New) is no source (reading decision 20): types that hold a Config
	// by value are handed over pre-filled only
	if cfgish && !c.Filled {
		r.Discard()
		return nil
	}
	opts := varOpts
	typ := c.T.typ()
	q := reflect.New(typ)
	if c.Filled {
		fill(q.Elem(), 0)
	}
	// the same value behind two pointers and inside an interface variable
	qq := reflect.New(q.Type())
	qq.Elem().Set(q)
	var boxed interface{} = q.Elem().Interface()
	errs := 0
	note := func(err error) {
		if err != nil {
			errs++
		}
	}
	for _, pol := range [][]ucfg.Option{nil, {ucfg.AppendValues}, {ucfg.ReplaceValues}} {
		o := append(append([]ucfg.Option{}, pol...), opts...)
		d := ucfg.MustNewFrom(map[string]interface{}{"k": map[string]interface{}{"a": 1}, "a": []int{1}, "l": []interface{}{1}}, opts...)
		note(d.Merge(q.Interface(), o...))
		note(d.Merge(q.Elem().Interface(), o...))
		note(d.Merge(map[string]interface{}{"k": q.Elem().Interface()}, o...))
		note(d.Merge([]interface{}{q.Interface()}, o...))
		note(d.Merge(qq.Interface(), o...))
		note(d.Merge(&boxed, o...))
		note(d.Merge(map[string]interface{}{"k": &boxed, "p": qq.Interface()}, o...))
		_, err := ucfg.NewFrom(q.Elem().Interface(), o...)
		note(err)
		_, err = ucfg.NewFrom(q.Interface(), o...)
		note(err)
		_, err = ucfg.NewFrom(qq.Interface(), o...)
		note(err)
		_, err = ucfg.NewFrom(&boxed, o...)
		note(err)
		if !cfgish {
			_, err = ucfg.NewFrom(reflect.Zero(typ).Interface(), o...)
			note(err)
		}
		exercise(d, opts)
	}
	r.NonTrivialIf(errs > 0)
	r.ClassIf(c.Filled, "non-zero source")
	top := c.T
	ptrs := 0
	for top.K == "ptr" {
		top, ptrs = top.E, ptrs+1
	}
	switch top.K {
	case "Config":
		r.Class("top level: Config by value")
	case "mycfg":
		r.Class("top level: named type convertible to Config")
	case "ifcfgval", "ifmycfgval", "ifmycfgptr", "ifcfgpp":
		r.Class("top level: interface holding a Config-like value")
	default:
		r.ClassIf(cfgish, "Config-like value nested in the source")
	}
	r.ClassIf(cfgish && ptrs > 0 && top.hasCfgKind() && top.E == nil && top.F == nil, "top level Config-like value behind generated pointers")
	return goroutinesSettled()
}

var subSources = runlog.Register(&runlog.Sub[TargetCase]{
	Name:    "merge-sources",
	Rule:    "values (zero and filled with live channels, functions, non-nil pointers, one-element collections) of the same random types, plus six Config-like kinds (ucfg.Config by value, a named type convertible to Config, named empty interfaces holding a Config by value / the named type by value / a pointer to it / a pointer to a pointer to a Config; always pre-filled from a constructor-made Config, the zero Config is no input) at the top level and nested, given to NewFrom and Merge by value, by pointer, by pointer to pointer, inside an interface variable passed by pointer, as a map value and as a list element, under default/append/replace; the result is then read through every entry point; must return. Non-trivial: at least one call returns an error.",
	Gen:     genSource,
	Run:     runSource,
	Journal: true,
})

func TestMergeSources(t *testing.T) { subSources.Check(t, 20000, 1500000) }

func TestReplay(t *testing.T) { runlog.ReplayMain(t) }
