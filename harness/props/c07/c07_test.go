// Package c07 decides property C07: no input makes the library panic, hang,
// leak a goroutine or allocate more list slots than MaxIdx allows.
//
// Every sub-check has the same oracle — the call returns (panics are recovered
// by the harness and reported; fatal errors and hangs are caught through the
// journal and the watchdog of internal/runlog) — plus the goroutine-count and
// list-length invariants where they apply.
package c07

import (
	"fmt"
	"reflect"
	"regexp"
	"runtime"
	"strings"
	"testing"
	"time"
	"unsafe"

	ucfg "github.com/elastic/go-ucfg"
	"github.com/elastic/go-ucfg/diff"
	"github.com/elastic/go-ucfg/hjson"
	"github.com/elastic/go-ucfg/json"
	"github.com/elastic/go-ucfg/parse"
	"github.com/elastic/go-ucfg/yaml"
	"pgregory.net/rapid"

	"verif/harness/internal/runlog"
)

// ---------------------------------------------------------------------------
// helpers

func enumStrings(alpha string, maxLen int, yield func(s string) bool) {
	buf := make([]byte, 0, maxLen)
	var rec func() bool
	rec = func() bool {
		if !yield(string(buf)) {
			return false
		}
		if len(buf) == maxLen {
			return true
		}
		for i := 0; i < len(alpha); i++ {
			buf = append(buf, alpha[i])
			if !rec() {
				return false
			}
			buf = buf[:len(buf)-1]
		}
		return true
	}
	rec()
}

var parseConfigs = func() []parse.Config {
	var out []parse.Config
	for f := 0; f < 32; f++ {
		c := parse.Config{Array: f&1 != 0, Object: f&2 != 0, StringDQuote: f&4 != 0, StringSQuote: f&8 != 0, IgnoreCommas: f&16 != 0}
		if !c.Array && c.Object {
			continue // rejected combination: objects need arrays? kept out as in the package's own validation
		}
		out = append(out, c)
	}
	return out
}()

var baseGoroutines = -1

// goroutinesSettled reports a goroutine leak: the number of goroutines must be
// back at the baseline shortly after a call returned.
func goroutinesSettled() error {
	if baseGoroutines < 0 {
		baseGoroutines = runtime.NumGoroutine()
		return nil
	}
	if runtime.NumGoroutine() <= baseGoroutines {
		return nil
	}
	for i := 0; i < 200; i++ {
		runtime.Gosched()
		if runtime.NumGoroutine() <= baseGoroutines {
			return nil
		}
		time.Sleep(5 * time.Millisecond)
	}
	return fmt.Errorf("goroutine leak: %d goroutines are running one second after the call returned, %d before it", runtime.NumGoroutine(), baseGoroutines)
}

// longestList returns the length of the longest list stored anywhere in c
// (hook: walks the stored tree without evaluating anything).
func longestList(c *ucfg.Config) int {
	max := 0
	var walk func(n ucfg.VerifNode)
	walk = func(n ucfg.VerifNode) {
		if len(n.Arr) > max {
			max = len(n.Arr)
		}
		for _, e := range n.Dict {
			walk(e)
		}
		for _, e := range n.Arr {
			walk(e)
		}
	}
	walk(ucfg.VerifSnapshot(c))
	return max
}

// recNode is a recursive target type: a setting that refers back to an enclosing object must end in an error,
// not in unbounded recursion.
type recNode struct {
	Name string              `config:"n"`
	Next *recNode            `config:"o"`
	A    *recNode            `config:"a"`
	L    []recNode           `config:"l"`
	M    map[string]*recNode `config:"m"`
	LL   recList             `config:"l"`
	OL   map[string]recList  `config:"o"`
}

// recList is a list type whose elements are lists of the same type
type recList []recList

// exercise calls every read entry point on c; only "returns" is asserted.
func exercise(c *ucfg.Config, opts []ucfg.Option) {
	var m map[string]interface{}
	c.Unpack(&m, opts...)
	var a []interface{}
	c.Unpack(&a, opts...)
	var s struct {
		A interface{} `config:"a"`
		B string      `config:"b"`
		L []int       `config:"l"`
	}
	c.Unpack(&s, opts...)
	var rec recNode
	c.Unpack(&rec, opts...)
	var recs map[string]*recNode
	c.Unpack(&recs, opts...)
	var lists map[string][]string
	c.Unpack(&lists, opts...)
	c.FlattenedKeys(opts...)
	for _, k := range c.GetFields() {
		c.String(k, -1, opts...)
		c.Int(k, 0, opts...)
		c.Uint(k, -1, opts...)
		c.Float(k, -1, opts...)
		c.Bool(k, -1, opts...)
		c.Child(k, -1, opts...)
		c.Has(k, 1, opts...)
		c.CountField(k)
		c.PathOf(k, ".")
	}
	n, _ := c.CountField("")
	for i := 0; i < n && i < 4; i++ {
		c.String("", i, opts...)
		c.Child("", i, opts...)
	}
	d := ucfg.New()
	d.Merge(c, opts...)
	d.Merge(c, append([]ucfg.Option{ucfg.AppendValues}, opts...)...)
	diff.CompareConfigs(c, d, opts...)
}

// ---------------------------------------------------------------------------
// (a) parse.Value / ValueWithConfig

type ParseCase struct {
	S string `json:"s"`
}

const parseAlpha = "[]{},:\"'\\$a1- "

func runParse(c ParseCase, r *runlog.R) error {
	rejected := false
	for _, cfg := range parseConfigs {
		if _, err := parse.ValueWithConfig(c.S, cfg); err != nil {
			rejected = true
		}
	}
	if _, err := parse.Value(c.S); err != nil {
		rejected = true
	}
	r.NonTrivialIf(rejected)
	return nil
}

var subParseEnum = runlog.Register(&runlog.Sub[ParseCase]{
	Name: "parse-enum",
	Rule: "every string up to length 5 (quick) / 7 (thorough) over the 14-symbol alphabet `[ ] { } , : \" ' \\ $ a 1 - space`, each parsed under all 24 valid parse.Config flag combinations and by parse.Value; must return. Non-trivial: at least one configuration rejects the string with an error. Cases are distinct by construction.",
	Enum: func(yield func(ParseCase) bool) {
		enumStrings(parseAlpha, runlog.Pick(5, 7), func(s string) bool { return yield(ParseCase{s}) })
	},
	Run: runParse,
})

func TestParseEnum(t *testing.T) { subParseEnum.Enumerate(t, true) }

var hostileFragments = []string{"[", "]", "{", "}", ",", ":", "\"", "'", "\\", "\\\"", "\\\\", "$", "${", "a", "1", "-", " ", "\t", "\n", "null", "true", "1e9", "0x", "-0", "é", "\U0001F600", "\\u00", "\\ud83d", "{a:", "[a,", "'a", "\"a", "a:1", "{a:1,", "[[", "]]", "}}", "{{", "a,b", ", ,", ":a", "{:}", "[,]", "\x00", "\xff",
	"\u00a0", "\u2003", "\u0085", "\f", "\v", "\r", "\u2028", "\ufeff", "[\u00a0]", ",\u2003,", ":\u00a0}", "\r\n"}

func genParseLong(t *rapid.T) ParseCase {
	n := rapid.IntRange(1, 12).Draw(t, "n")
	var b strings.Builder
	for i := 0; i < n; i++ {
		b.WriteString(rapid.SampledFrom(hostileFragments).Draw(t, "frag"))
	}
	return ParseCase{strings.ToValidUTF8(b.String(), "?")}
}

var subParseRand = runlog.Register(&runlog.Sub[ParseCase]{
	Name: "parse-random",
	Rule: "longer strings assembled from 45 hostile fragments (unterminated brackets and quotes, escapes, partial \\u sequences, separators in odd places), parsed under all 24 configurations; must return. Non-trivial: at least one configuration rejects the string.",
	Gen:  genParseLong,
	Run:  runParse,
})

func TestParseRandom(t *testing.T) { subParseRand.Check(t, 40000, 2000000) }

// ---------------------------------------------------------------------------
// (c) strings as settings under VarExp

type VarCase struct {
	S   string `json:"s"`
	Key string `json:"key,omitempty"`
}

const varAlpha = "${}:+?a.0,"

var varOpts = []ucfg.Option{ucfg.PathSep("."), ucfg.VarExp}

func runVar(c VarCase, r *runlog.R) error {
	key := c.Key
	if key == "" {
		key = "a"
	}
	cfg, err := ucfg.NewFrom(map[string]interface{}{
		key: c.S, "b": "v", "0": "z", "o": map[string]interface{}{"k": c.S, "n": 1, "o": c.S, "a": "${o}"}, "l": []interface{}{c.S, 1},
		// the setting under test reached through its alias "element 0 of a value that is no list", directly and
		// through one more reference
		"al": "${" + key + ".0}", "al2": "${al}", "al3": "${" + key + ".0.0}",
	}, varOpts...)
	if err != nil {
		r.NonTrivial()
		return goroutinesSettled()
	}
	failed := false
	var m map[string]interface{}
	if cfg.Unpack(&m, varOpts...) != nil {
		failed = true
	}
	if _, err := cfg.String(key, -1, varOpts...); err != nil {
		failed = true
	}
	exercise(cfg, varOpts)
	// with a resolver and an environment as well
	env := ucfg.MustNewFrom(map[string]interface{}{"e": "env", "a": map[string]interface{}{"x": 1}})
	o2 := append([]ucfg.Option{ucfg.Env(env), ucfg.Resolve(func(name string) (string, parse.Config, error) {
		if name == "r" || name == "0" {
			return "[1,{a: b}]", parse.DefaultConfig, nil
		}
		return "", parse.DefaultConfig, ucfg.ErrMissing
	})}, varOpts...)
	cfg.Unpack(&m, o2...)
	cfg.FlattenedKeys(o2...)
	// list targets follow chains of references
	var lt struct {
		Al  []string       `config:"al"`
		Al2 [1]interface{} `config:"al2"`
		Al3 []int          `config:"al3"`
		K   []interface{}  `config:"o.k"`
	}
	cfg.Unpack(&lt, varOpts...)
	cfg.Unpack(&lt, o2...)
	// a small maximum index also binds text that is parsed after an expansion (a resolver's answer, a spliced
	// string): no list of the result may be longer than what the texts spell out element by element
	small := append([]ucfg.Option{ucfg.MaxIdx(2), ucfg.Resolve(func(name string) (string, parse.Config, error) {
		if name == "r" || name == "nope" {
			return "{l.900: 1, k.0x20.j: [1], 700: x}", parse.DefaultConfig, nil
		}
		return "", parse.DefaultConfig, ucfg.ErrMissing
	})}, varOpts...)
	bound := 8 * (2 + strings.Count(c.S, ","))
	var m2 map[string]interface{}
	if cfg.Unpack(&m2, small...) == nil {
		if n := longestInData(m2); n > bound {
			return fmt.Errorf("unpacked under MaxIdx(2), the result holds a list of %d entries (the texts spell out at most %d)", n, bound)
		}
	}
	for _, k := range []string{key, "al", "al2", "o", "l"} {
		if n, err := cfg.CountField(k, small...); err == nil && n > bound {
			return fmt.Errorf("CountField(%q) under MaxIdx(2) = %d (the texts spell out at most %d entries)", k, n, bound)
		}
		if ch, err := cfg.Child(k, -1, small...); err == nil {
			if n := longestList(ch); n > bound {
				return fmt.Errorf("Child(%q) under MaxIdx(2) holds a list of %d entries (the texts spell out at most %d)", k, n, bound)
			}
		}
	}
	r.NonTrivialIf(failed)
	return goroutinesSettled()
}

func longestInData(v interface{}) int {
	n := 0
	switch x := v.(type) {
	case map[string]interface{}:
		for _, e := range x {
			if k := longestInData(e); k > n {
				n = k
			}
		}
	case []interface{}:
		n = len(x)
		for _, e := range x {
			if k := longestInData(e); k > n {
				n = k
			}
		}
	}
	return n
}

var subVarEnum = runlog.Register(&runlog.Sub[VarCase]{
	Name: "varexp-enum",
	Rule: "every string up to length 4 (quick) / 7 (thorough) over `$ { } : + ? a . 0 ,` stored as a setting (top level, inside an object, inside a list) under PathSep+VarExp, then read through Unpack (map, list, struct), all typed getters, Child, Has, CountField, PathOf, FlattenedKeys, use as merge source (default and append) and CompareConfigs, with and without Env and a resolver whose text parses into a list; must return and leave no goroutine behind. Non-trivial: creating or reading the setting returns an error.",
	Enum: func(yield func(VarCase) bool) {
		enumStrings(varAlpha, runlog.Pick(4, 7), func(s string) bool { return yield(VarCase{S: s}) })
	},
	Run:     runVar,
	Journal: true,
})

func TestVarExpEnum(t *testing.T) { subVarEnum.Enumerate(t, true) }

var varFragments = []string{"${", "}", "$", "$$", "$}", ":", ":+", ":?", "a", "b", "o", "o.k", "l.0", "l", "0", "x", ".", ",", "[", "]", "{", " ", "${a}", "${self}", "${o}", "${l}", "${b:", "${nope:?", "self", "${r}", "${nope}", "{l.900: ", "a.800: 1", ".7", "900", "${a.0}", "${self.0}", "${al}", "${al2}"}

func genVarLong(t *rapid.T) VarCase {
	n := rapid.IntRange(1, 10).Draw(t, "n")
	var b strings.Builder
	for i := 0; i < n; i++ {
		b.WriteString(rapid.SampledFrom(varFragments).Draw(t, "frag"))
	}
	return VarCase{S: b.String(), Key: rapid.SampledFrom([]string{"a", "self", "o.x", "l.2", "b"}).Draw(t, "key")}
}

var subVarRand = runlog.Register(&runlog.Sub[VarCase]{
	Name:    "varexp-random",
	Rule:    "longer expansion strings assembled from 29 fragments (nested references, operators, self references, references to objects and lists), stored under several keys incl. one that makes the reference cyclic; same reads as varexp-enum. Non-trivial: an error is returned somewhere.",
	Gen:     genVarLong,
	Run:     runVar,
	Journal: true,
})

func TestVarExpRandom(t *testing.T) { subVarRand.Check(t, 40000, 1000000) }

// ---------------------------------------------------------------------------
// (b) format loaders on bytes

type LoadCase struct {
	B       []byte `json:"b"`
	PathSep bool   `json:"pathsep,omitempty"`
	Escape  bool   `json:"escape,omitempty"` // EscapePath()
	VarExp  bool   `json:"varexp,omitempty"`
}

var docFragments = []string{
	"a: 1\n", "a.b: [1, 2]\n", "a: {c: d}\n", "- 1\n", "- {a: b}\n", "a: ${b}\n", "b: ${a}\n", "0: x\n", "-1: x\n", "a.-1: x\n", "? [a]\n: b\n", "a: &x 1\n", "b: *x\n",
	"a: !!binary aGk=\n", "{", "}", "[", "]", "\"a\":", "\"a.b\":", "1", "null", "\"${a}\"", ",", ":", " ", "\n", "  ", "a:", "-", "\"", "'", "#", "//", "/*", "*/", "'''", "1e999", "0x1F",
	"{\"a\": {\"b\": [1, \"${a}\"]}, \"a.c\": null}", "99999999999999999999", "-0", "~", "<<: *x\n", "a: |\n  x\n", "\"0\": 1", "\"5000\": 1", "\"1.2\": {}", "\"a..b\": 1", "\".\": 1", "\"\": 1", "\"[a.b]\": 1", "\"[]\": 1", "\"[\": 1", "[a.b]: 1\n", "\"\": {\"\": 1}",
}

func genLoad(t *rapid.T) LoadCase {
	n := rapid.IntRange(1, 10).Draw(t, "n")
	var b []byte
	for i := 0; i < n; i++ {
		if rapid.IntRange(0, 9).Draw(t, "raw") == 0 {
			b = append(b, rapid.Byte().Draw(t, "byte"))
			continue
		}
		b = append(b, rapid.SampledFrom(docFragments).Draw(t, "frag")...)
	}
	return LoadCase{B: b, PathSep: rapid.Bool().Draw(t, "pathsep"), VarExp: rapid.Bool().Draw(t, "varexp"), Escape: rapid.IntRange(0, 2).Draw(t, "escape") == 0}
}

func runLoad(c LoadCase, r *runlog.R) error {
	var opts []ucfg.Option
	if c.PathSep {
		opts = append(opts, ucfg.PathSep("."))
	}
	if c.VarExp {
		opts = append(opts, ucfg.VarExp)
	}
	if c.Escape {
		opts = append(opts, ucfg.EscapePath())
	}
	accepted := 0
	for _, load := range []func([]byte, ...ucfg.Option) (*ucfg.Config, error){yaml.NewConfig, json.NewConfig, hjson.NewConfig} {
		cfg, err := load(c.B, opts...)
		if err != nil {
			continue
		}
		accepted++
		if n := longestList(cfg); n > 1025 {
			return fmt.Errorf("loading %q built a list of %d entries although MaxIdx is 1024", c.B, n)
		}
		exercise(cfg, opts)
	}
	r.NonTrivialIf(accepted > 0 && accepted < 3)
	r.Class(fmt.Sprintf("accepted by %d loaders", accepted))
	return goroutinesSettled()
}

var subLoad = runlog.Register(&runlog.Sub[LoadCase]{
	Name:    "loaders-random",
	Rule:    "byte strings assembled from 50 YAML/JSON/HJSON fragments (anchors, merge keys, tags, numeric and negative keys, dotted keys, references, comments, unterminated tokens) and raw bytes, loaded by yaml/json/hjson.NewConfig with and without PathSep/VarExp/EscapePath and then read through every entry point; must return, leave no goroutine behind and build no list longer than MaxIdx+1. Non-trivial: some but not all loaders accept the document (malformed-but-plausible).",
	Gen:     genLoad,
	Run:     runLoad,
	Journal: true,
})

func TestLoadersRandom(t *testing.T) { subLoad.Check(t, 30000, 1500000) }

// ---------------------------------------------------------------------------
// (d) names and indices given to getters, setters, Has, Remove, Child, CountField

type PathOp struct {
	Kind int    `json:"kind"`
	Name string `json:"name"`
	Idx  int    `json:"idx"`
}

type PathCase struct {
	PathSep bool     `json:"pathsep,omitempty"`
	NumKeys bool     `json:"numkeys,omitempty"`
	MaxIdx  int64    `json:"maxidx,omitempty"` // 0: default (1024)
	MaxIdx0 bool     `json:"maxidx0,omitempty"` // the option MaxIdx(0): index 0 is the only list index
	Escape  bool     `json:"escape,omitempty"`  // the option EscapePath()
	Ops     []PathOp `json:"ops"`
}

var nameSpellings = []string{"", "a", "b", "l", "p", "n", "a.b", "a.l", "a.l.1", "l.0.k", "l.1", "0", "1", "-1", "-0", "+1", "00", "0x10", "0X1", "0o7", "0b1", "1_0", "1024", "1025", "5000", "1000000", "9223372036854775807", "9223372036854775808", "-9223372036854775808", "18446744073709551616", "a.-1", "a.-1.b", "-1.a", "a..b", ".", "..", "a.", ".a", " 1", "1 ", "1.0", "1e1", "١", "a.0x1", "l.-2", "l.5000", "n.x", "p.x", "p.0", "[a.b]", "[]", "[", "]", "[a].b", "a.[b]", "[a.l].1", "[[]]", "[\n]", "m", "m.1", "m.3"}

var idxValues = []int{-1, -1, -1, 0, 0, 1, 2, 3, -2, -5, 1023, 1024, 1025, 5000, 100000, 1000000, -1 << 31, -1 << 63}

const nPathOps = 14

func genPath(t *rapid.T) PathCase {
	c := PathCase{PathSep: rapid.Bool().Draw(t, "pathsep"), NumKeys: rapid.IntRange(0, 3).Draw(t, "numkeys") == 0}
	c.MaxIdx = rapid.SampledFrom([]int64{0, 0, 0, 1, 7, 5000, -1}).Draw(t, "maxidx")
	if c.MaxIdx < 0 {
		c.MaxIdx, c.MaxIdx0 = 0, true
	}
	c.Escape = rapid.IntRange(0, 3).Draw(t, "escape") == 0
	n := rapid.IntRange(1, 8).Draw(t, "nops")
	// half of the sequences stay with one list: removals, writes at and beyond its end and reads follow each
	// other on the same setting (states that only a history of calls reaches)
	focus := ""
	if rapid.Bool().Draw(t, "focused") {
		focus = rapid.SampledFrom([]string{"m", "l", "a.l", "m.1", "a"}).Draw(t, "focus")
	}
	for i := 0; i < n; i++ {
		if focus != "" && rapid.IntRange(0, 4).Draw(t, "stay") > 0 {
			c.Ops = append(c.Ops, PathOp{Kind: rapid.SampledFrom([]int{4, 4, 4, 0, 1, 2, 3, 12, 13, 7, 5, 10}).Draw(t, "fkind"), Name: focus, Idx: rapid.SampledFrom([]int{0, 0, 1, 2, 3, 4, 5, 6, -1}).Draw(t, "fidx")})
			continue
		}
		c.Ops = append(c.Ops, PathOp{Kind: rapid.IntRange(0, nPathOps-1).Draw(t, "kind"), Name: rapid.SampledFrom(nameSpellings).Draw(t, "name"), Idx: rapid.SampledFrom(idxValues).Draw(t, "idx")})
	}
	return c
}

func pathOpts(c PathCase) ([]ucfg.Option, int) {
	var opts []ucfg.Option
	if c.PathSep {
		opts = append(opts, ucfg.PathSep("."))
	}
	if c.NumKeys {
		opts = append(opts, ucfg.EnableNumKeys(true))
	}
	if c.Escape {
		opts = append(opts, ucfg.EscapePath())
	}
	limit := 1024
	if c.MaxIdx != 0 || c.MaxIdx0 {
		opts = append(opts, ucfg.MaxIdx(c.MaxIdx))
		limit = int(c.MaxIdx)
	}
	return opts, limit
}

func runPath(c PathCase, r *runlog.R) error {
	opts, limit := pathOpts(c)
	cfg := ucfg.MustNewFrom(map[string]interface{}{
		"a": map[string]interface{}{"b": 1, "l": []interface{}{1, "x", nil}},
		"l": []interface{}{map[string]interface{}{"k": true}, 2}, "p": "s", "n": nil,
		"m": []interface{}{0, []interface{}{"p", "q", "r", "s"}, 2, 3, 4, 5},
	})
	hostile, errs := false, 0
	for i, op := range c.Ops {
		var err error
		before := longestList(cfg)
		switch op.Kind {
		case 0:
			err = cfg.SetInt(op.Name, op.Idx, 5, opts...)
		case 1:
			err = cfg.SetString(op.Name, op.Idx, "v", opts...)
		case 2:
			err = cfg.SetBool(op.Name, op.Idx, true, opts...)
		case 3:
			sub := ucfg.New()
			sub.SetFloat(op.Name, op.Idx, 1.5, opts...)
			if n := longestList(sub); n > limit+1 {
				return fmt.Errorf("op %d: SetFloat(%q, %d) on an empty config built a list of %d entries, MaxIdx is %d", i, op.Name, op.Idx, n, limit)
			}
			err = cfg.SetChild(op.Name, op.Idx, sub, opts...)
		case 4:
			_, err = cfg.Remove(op.Name, op.Idx, opts...)
		case 5:
			_, err = cfg.Int(op.Name, op.Idx, opts...)
			cfg.Uint(op.Name, op.Idx, opts...)
			cfg.Float(op.Name, op.Idx, opts...)
		case 6:
			_, err = cfg.String(op.Name, op.Idx, opts...)
			cfg.Bool(op.Name, op.Idx, opts...)
		case 7:
			_, err = cfg.Child(op.Name, op.Idx, opts...)
		case 8:
			_, err = cfg.Has(op.Name, op.Idx, opts...)
			cfg.HasField(op.Name)
		case 9:
			_, err = cfg.CountField(op.Name)
			cfg.PathOf(op.Name, ".")
		case 10:
			err = cfg.Merge(map[string]interface{}{op.Name: 1, "z": map[string]interface{}{op.Name: []int{1, 2}}}, opts...)
		case 11:
			_, err = ucfg.NewFrom(map[string]interface{}{op.Name: map[string]interface{}{op.Name: 1}}, opts...)
		case 12:
			err = cfg.SetUint(op.Name, op.Idx, 7, opts...)
		case 13:
			var m map[string]interface{}
			err = cfg.Unpack(&m, opts...)
			cfg.FlattenedKeys(opts...)
		}
		if err != nil {
			errs++
		}
		if op.Idx < -1 || op.Idx > limit || strings.ContainsAny(op.Name, "-+x_") {
			hostile = true
		}
		// a single name/index may not make a list grow beyond MaxIdx+1 entries (lists that were longer before,
		// or that a merge source spells out element by element, are not index allocations)
		if n := longestList(cfg); n > limit+1 && n > before && op.Kind != 10 && op.Kind != 11 {
			return fmt.Errorf("after op %d (kind %d, name %q, idx %d): a list grew to %d entries (longest before: %d) although MaxIdx is %d", i, op.Kind, op.Name, op.Idx, n, before, limit)
		}
	}
	// nil arguments are inputs too
	cfg.SetChild("zz", -1, nil, opts...)
	cfg.SetChild("l", 0, nil, opts...)
	cfg.Merge(nil, opts...)
	cfg.Merge((*ucfg.Config)(nil), opts...)
	cfg.Merge((*map[string]interface{})(nil), opts...)
	ucfg.NewFrom(nil, opts...)
	cfg.Unpack(nil, opts...)
	cfg.Unpack((*map[string]interface{})(nil), opts...)
	cfg.Unpack(map[string]interface{}{}, opts...)
	// whatever state the sequence left behind is read completely
	var m map[string]interface{}
	cfg.Unpack(&m, opts...)
	cfg.FlattenedKeys(opts...)
	ucfg.New().Merge(cfg, opts...)
	ucfg.NewFrom(map[string]interface{}{"c": cfg}, opts...)
	for _, name := range []string{"m", "l", "a"} {
		cfg.CountField(name)
		if ch, err := cfg.Child(name, -1, opts...); err == nil {
			ch.FlattenedKeys(opts...)
			cfg.Remove(name, 0, opts...)
			ch.GetFields()
		}
	}
	// a configuration that was attached, removed and now gets its former parent attached below it: the tree is
	// acyclic, whatever the configurations remember of their former places
	f := ucfg.New()
	if cfg.SetChild("ring", -1, f, opts...) == nil {
		cfg.Remove("ring", -1, opts...)
		if f.SetChild("m", -1, cfg, opts...) == nil {
			vo := []ucfg.Option{ucfg.PathSep("."), ucfg.VarExp}
			f.Bool("nope", -1, opts...)
			f.Path(".")
			cfg.Path("/")
			f.PathOf("x", ".")
			f.Merge(map[string]interface{}{"r": "${m.p}", "r2": "${nope.x}"}, vo...)
			f.String("r", -1, vo...)
			f.String("r2", -1, vo...)
			f.Int("m.p.q", -1, vo...)
			var fm map[string]interface{}
			f.Unpack(&fm, vo...)
			f.FlattenedKeys(vo...)
			cfg.Child("l", -1, opts...)
		}
	}
	r.NonTrivialIf(hostile && errs > 0)
	r.ClassIf(errs > 0, "some op returned an error")
	return nil
}

func runPathQuiet(c PathCase) error { return runPath(c, &runlog.R{}) }

var subPath = runlog.Register(&runlog.Sub[PathCase]{
	Name:    "path-ops",
	Rule:    "sequences of 1-8 calls of Set*/SetChild/Remove/typed getters/Child/Has/HasField/CountField/PathOf/Merge/NewFrom/Unpack/FlattenedKeys with names from 61 spellings (incl. bracketed ones) (negative, signed, hex/octal/binary, huge, dotted with empty and negative segments, blanks, non-ASCII digits) and indices from {MinInt64, -2^31, -5, -2, -1, 0..3, 1023..1025, 5000, 1e5, 1e6}, with and without PathSep, EnableNumKeys, EscapePath and MaxIdx in {default, 0, 1, 7, 5000}; half of the sequences stay with one list (removals, writes at and beyond its end, reads), and the state a sequence leaves behind is read completely (Unpack, FlattenedKeys, use as merge source, children); must return, and after every setter no list anywhere is longer than MaxIdx+1. Non-trivial: the sequence contains a hostile name or index and at least one call returned an error.",
	Gen:     genPath,
	Run:     runPath,
	Journal: true,
})

func TestPathOps(t *testing.T) { subPath.Check(t, 40000, 3000000) }

// ---------------------------------------------------------------------------
// (e) arbitrary unpack targets and (f) arbitrary merge sources

// OT describes a (possibly unsupported) Go type.
type OT struct {
	K string `json:"k"` // base kind name, or ptr slice array map struct
	E *OT    `json:"e,omitempty"`
	N int    `json:"n,omitempty"`
	F []OF   `json:"f,omitempty"`
}

type OF struct {
	Tag string `json:"tag"`
	Val string `json:"val,omitempty"`
	T   *OT    `json:"t"`
}

type NStr string
type NInt int
type NBool bool
type NFloat float32
type NUint uint16
type NDur time.Duration

// named pointer types
type NPtr *int
type NPtrPtr *NPtr
type NPtrStruct *struct {
	X int `config:"x"`
}

// interface types with methods the library looks for, and types implementing them with pointer receivers
type unpIface interface{ Unpack(*ucfg.Config) error }
type implAll struct {
	X int `config:"x"`
}

func (i *implAll) Unpack(c *ucfg.Config) error { return nil }
func (i *implAll) InitDefaults()               { i.X = 1 }
func (i *implAll) Validate() error             { return nil }
func (i *implAll) String() string              { return "impl" }
func (i *implAll) Error() string               { return "impl" }

// methods named Unpack that match none of the Unpacker interfaces
type unpNoResult struct{ X int }

func (u *unpNoResult) Unpack(c *ucfg.Config) {}

type unpTwoResults struct{ X int }

func (u *unpTwoResults) Unpack(c *ucfg.Config) (int, error) { return 0, nil }

type unpTwoParams struct{ X int }

func (u *unpTwoParams) Unpack(a, b int) error { return nil }

type unpOtherParam struct{ X int }

func (u *unpOtherParam) Unpack(m map[string]int) error { return nil }

type unpValueRecv struct{ X int }

func (u unpValueRecv) Unpack(c *ucfg.Config) error { return nil }

type unpInt int64

func (u *unpInt) Unpack(v int64) error { *u = unpInt(v); return nil }

type unpNoErr struct{ X int }

func (u *unpNoErr) Unpack(c *ucfg.Config) string { return "" }

var ifaceImpl = reflect.ValueOf(&implAll{})

var oddBase = map[string]reflect.Type{
	"nptr": reflect.TypeOf(NPtr(nil)), "nptrptr": reflect.TypeOf(NPtrPtr(nil)), "nptrstruct": reflect.TypeOf(NPtrStruct(nil)),
	"unpiface": reflect.TypeOf((*unpIface)(nil)).Elem(), "initiface": reflect.TypeOf((*ucfg.Initializer)(nil)).Elem(), "validiface": reflect.TypeOf((*ucfg.Validator)(nil)).Elem(),
	"unp0": reflect.TypeOf(unpNoResult{}), "unp2": reflect.TypeOf(unpTwoResults{}), "unp2p": reflect.TypeOf(unpTwoParams{}), "unpother": reflect.TypeOf(unpOtherParam{}),
	"unpval": reflect.TypeOf(unpValueRecv{}), "unpint": reflect.TypeOf(unpInt(0)), "unpnoerr": reflect.TypeOf(unpNoErr{}), "implall": reflect.TypeOf(implAll{}),
	"chan": reflect.TypeOf(make(chan int)), "func": reflect.TypeOf(func() {}), "complex": reflect.TypeOf(complex128(0)), "uintptr": reflect.TypeOf(uintptr(0)),
	"map[int]": reflect.TypeOf(map[int]string{}), "error": reflect.TypeOf((*error)(nil)).Elem(), "unsafe": reflect.TypeOf(unsafe.Pointer(nil)),
	"stringer": reflect.TypeOf((*fmt.Stringer)(nil)).Elem(), "time": reflect.TypeOf(time.Time{}), "[0]int": reflect.TypeOf([0]int{}), "struct{}": reflect.TypeOf(struct{}{}),
	"iface": reflect.TypeOf((*interface{})(nil)).Elem(), "*Config": reflect.TypeOf((*ucfg.Config)(nil)), "map[string]*Config": reflect.TypeOf(map[string]*ucfg.Config{}),
	"int": reflect.TypeOf(int(0)), "string": reflect.TypeOf(""), "bool": reflect.TypeOf(false), "float": reflect.TypeOf(1.5), "dur": reflect.TypeOf(time.Second),
	"[]byte": reflect.TypeOf([]byte{}), "map[iface]iface": reflect.TypeOf(map[interface{}]interface{}{}), "Config": reflect.TypeOf(ucfg.Config{}),
	"nbool": reflect.TypeOf(NBool(false)), "nfloat": reflect.TypeOf(NFloat(0)), "nuint": reflect.TypeOf(NUint(0)), "ndur": reflect.TypeOf(NDur(0)),
	"map[nstr]": reflect.TypeOf(map[NStr]int{}), "map[nstr]iface": reflect.TypeOf(map[NStr]interface{}{}), "reclist": reflect.TypeOf(recList{}),
	"regexp": reflect.TypeOf((*regexp.Regexp)(nil)), "regexpval": reflect.TypeOf(regexp.Regexp{}), "rec": reflect.TypeOf(recNode{}),
	"*iface": reflect.TypeOf((*interface{})(nil)), "[]*iface": reflect.TypeOf([]*interface{}{}), "nstr": reflect.TypeOf(NStr("")), "nint": reflect.TypeOf(NInt(0)), "uint8": reflect.TypeOf(uint8(0)), "float32": reflect.TypeOf(float32(0)),
}

var oddNames = func() []string {
	names := []string{"chan", "func", "complex", "uintptr", "map[int]", "error", "unsafe", "stringer", "time", "[0]int", "struct{}", "iface", "*Config", "map[string]*Config",
		"int", "string", "bool", "float", "dur", "[]byte", "map[iface]iface", "nstr", "nint", "uint8", "float32", "*iface", "[]*iface", "nbool", "nfloat", "nuint", "ndur", "regexp", "regexpval", "rec", "map[nstr]", "map[nstr]iface", "reclist",
		"nptr", "nptrptr", "nptrstruct", "unpiface", "initiface", "validiface", "unp0", "unp2", "unp2p", "unpother", "unpval", "unpint", "unpnoerr", "implall"}
	return names
}()

var (
	oddTags = []string{"a", "b", "l", "o", "n", ",inline", "a,replace", "l,append", "l,prepend", ",ignore", "o.x", "zz", "r", "d", "t", "f", "t", "k"}
	oddVals = []string{"", "", "required", "nonzero", "positive", "min=1", "max=1s", "bogus", "min=x"}
)

func genOT(t *rapid.T, depth int) *OT {
	k := rapid.IntRange(0, 8).Draw(t, "k")
	if depth <= 0 || k < 4 {
		return &OT{K: rapid.SampledFrom(oddNames).Draw(t, "odd")}
	}
	switch k {
	case 4:
		return &OT{K: "ptr", E: genOT(t, depth-1)}
	case 5:
		return &OT{K: "slice", E: genOT(t, depth-1)}
	case 6:
		return &OT{K: "array", N: rapid.IntRange(0, 2).Draw(t, "n"), E: genOT(t, depth-1)}
	case 7:
		return &OT{K: "map", E: genOT(t, depth-1)}
	}
	n := rapid.IntRange(1, 3).Draw(t, "nf")
	ot := &OT{K: "struct"}
	for i := 0; i < n; i++ {
		ot.F = append(ot.F, OF{Tag: rapid.SampledFrom(oddTags).Draw(t, "tag"), Val: rapid.SampledFrom(oddVals).Draw(t, "val"), T: genOT(t, depth-1)})
	}
	return ot
}

func (o *OT) typ() reflect.Type {
	if t, ok := oddBase[o.K]; ok {
		return t
	}
	switch o.K {
	case "ptr":
		return reflect.PtrTo(o.E.typ())
	case "slice":
		return reflect.SliceOf(o.E.typ())
	case "array":
		return reflect.ArrayOf(o.N, o.E.typ())
	case "map":
		return reflect.MapOf(reflect.TypeOf(""), o.E.typ())
	case "struct":
		var fs []reflect.StructField
		for i, f := range o.F {
			st := fmt.Sprintf(`config:"%s"`, f.Tag)
			if f.Val != "" {
				st += fmt.Sprintf(` validate:"%s"`, f.Val)
			}
			fs = append(fs, reflect.StructField{Name: fmt.Sprintf("F%d", i), Type: f.T.typ(), Tag: reflect.StructTag(st)})
		}
		return reflect.StructOf(fs)
	}
	panic("unknown odd kind " + o.K)
}

func (o *OT) has(kind string) bool {
	if o.K == kind {
		return true
	}
	if o.E != nil && o.E.has(kind) {
		return true
	}
	for _, f := range o.F {
		if f.T.has(kind) {
			return true
		}
	}
	return false
}

// fill stores non-zero content where that is possible without the library:
// non-nil pointers, one-element slices and maps, live channels and functions.
func fill(v reflect.Value, depth int) {
	if depth > 6 {
		return
	}
	switch v.Kind() {
	case reflect.Ptr:
		if v.Type() == reflect.TypeOf((*ucfg.Config)(nil)) {
			v.Set(reflect.ValueOf(ucfg.MustNewFrom(map[string]interface{}{"k": 1})))
			return
		}
		p := reflect.New(v.Type().Elem())
		fill(p.Elem(), depth+1)
		v.Set(p)
	case reflect.Slice:
		s := reflect.MakeSlice(v.Type(), 1, 1)
		fill(s.Index(0), depth+1)
		v.Set(s)
	case reflect.Array:
		for i := 0; i < v.Len(); i++ {
			fill(v.Index(i), depth+1)
		}
	case reflect.Map:
		m := reflect.MakeMap(v.Type())
		e := reflect.New(v.Type().Elem()).Elem()
		fill(e, depth+1)
		k := reflect.New(v.Type().Key()).Elem()
		switch k.Kind() {
		case reflect.String:
			k.SetString("k")
		case reflect.Interface:
			k.Set(reflect.ValueOf("k"))
		}
		m.SetMapIndex(k, e)
		v.Set(m)
	case reflect.Struct:
		if v.Type() == reflect.TypeOf(ucfg.Config{}) || v.Type() == reflect.TypeOf(time.Time{}) {
			return
		}
		for i := 0; i < v.NumField(); i++ {
			if v.Field(i).CanSet() {
				fill(v.Field(i), depth+1)
			}
		}
	case reflect.Chan:
		v.Set(reflect.MakeChan(v.Type(), 1))
	case reflect.Func:
		v.Set(reflect.MakeFunc(v.Type(), func([]reflect.Value) []reflect.Value { return nil }))
	case reflect.Int, reflect.Int64:
		v.SetInt(-5)
	case reflect.Uint8, reflect.Uintptr:
		v.SetUint(3)
	case reflect.String:
		v.SetString("s")
	case reflect.Bool:
		v.SetBool(true)
	case reflect.Float64, reflect.Float32:
		v.SetFloat(1.5)
	case reflect.Complex128:
		v.SetComplex(complex(1, 2))
	case reflect.Interface:
		if v.NumMethod() == 0 {
			v.Set(reflect.ValueOf(map[string]interface{}{"i": 1}))
		} else if ifaceImpl.Type().AssignableTo(v.Type()) {
			// a non-empty interface holds a pointer to a type whose methods have pointer receivers
			v.Set(reflect.ValueOf(&implAll{X: 2}))
		}
	}
}

type TargetCase struct {
	T      *OT  `json:"t"`
	Filled bool `json:"filled,omitempty"`
}

func genTarget(t *rapid.T) TargetCase {
	return TargetCase{T: genOT(t, 3), Filled: rapid.Bool().Draw(t, "filled")}
}

func targetConfigs(opts []ucfg.Option) []*ucfg.Config {
	c := ucfg.MustNewFrom(map[string]interface{}{
		"a": 1, "b": "str", "l": []interface{}{1, "x", map[string]interface{}{"k": true}, nil, []int{1}},
		"o": map[string]interface{}{"x": 1.5, "y": "${a}"}, "n": nil, "r": "${o}", "d": "1s", "t": true, "f": 2.5, "k": map[string]interface{}{"k": map[string]interface{}{"k": 2}},
	}, opts...)
	lc := ucfg.MustNewFrom([]interface{}{1, map[string]interface{}{"a": 2}}, opts...)
	ec := ucfg.New()
	return []*ucfg.Config{c, lc, ec}
}

func runTarget(c TargetCase, r *runlog.R) error {
	// the zero value ucfg.Config{} (not created by New) is not a supported receiver or target (reading decision 20)
	if c.T.has("Config") {
		r.Discard()
		return nil
	}
	opts := varOpts
	typ := c.T.typ()
	errs := 0
	note := func(err error) {
		if err != nil {
			errs++
		}
	}
	mk := func() reflect.Value {
		p := reflect.New(typ)
		if c.Filled {
			fill(p.Elem(), 0)
		}
		return p
	}
	for _, cfg := range targetConfigs(opts) {
		p := mk()
		note(cfg.Unpack(p.Interface(), opts...))           // pointer to (pre-filled) value
		note(cfg.Unpack(p.Interface(), opts...))           // a second time over the first result
		note(cfg.Unpack(mk().Elem().Interface(), opts...)) // by value (incl. nil maps, nil pointers)
		note(cfg.Unpack(reflect.Zero(typ).Interface(), opts...))
		pp := reflect.New(p.Type())
		pp.Elem().Set(mk())
		note(cfg.Unpack(pp.Interface(), opts...))                    // through a pointer chain
		note(cfg.Unpack(reflect.New(p.Type()).Interface(), opts...)) // pointer to nil pointer
		note(cfg.Unpack(mk().Interface(), append([]ucfg.Option{ucfg.AppendValues}, opts...)...))
	}
	r.NonTrivialIf(errs > 0)
	r.ClassIf(c.Filled, "pre-filled target")
	return goroutinesSettled()
}

var subTargets = runlog.Register(&runlog.Sub[TargetCase]{
	Name:    "unpack-targets",
	Rule:    "random target types nested up to 3 levels over 25 base types incl. unsupported ones (chan, func, complex, uintptr, map[int]T, non-empty interfaces, unsafe.Pointer, time.Time, [0]int, *Config, *interface{}, named string/int) with random config and validate tags (incl. malformed ones); each unpacked from a dictionary, a list and an empty config as zero value, pre-filled, by value, as nil, through pointer chains, twice, and with a global append policy; must return. Non-trivial: at least one call returns an error.",
	Gen:     genTarget,
	Run:     runTarget,
	Journal: true, // a target type that makes Unpack allocate without bound kills the worker before the watchdog fires
})

func TestUnpackTargets(t *testing.T) { subTargets.Check(t, 30000, 1500000) }

func runSource(c TargetCase, r *runlog.R) error {
	if c.T.has("Config") {
		r.Discard()
		return nil
	}
	opts := varOpts
	typ := c.T.typ()
	q := reflect.New(typ)
	if c.Filled {
		fill(q.Elem(), 0)
	}
	errs := 0
	note := func(err error) {
		if err != nil {
			errs++
		}
	}
	for _, pol := range [][]ucfg.Option{nil, {ucfg.AppendValues}, {ucfg.ReplaceValues}} {
		o := append(append([]ucfg.Option{}, pol...), opts...)
		d := ucfg.MustNewFrom(map[string]interface{}{"k": map[string]interface{}{"a": 1}, "a": []int{1}, "l": []interface{}{1}}, opts...)
		note(d.Merge(q.Interface(), o...))
		note(d.Merge(q.Elem().Interface(), o...))
		note(d.Merge(map[string]interface{}{"k": q.Elem().Interface()}, o...))
		note(d.Merge([]interface{}{q.Interface()}, o...))
		_, err := ucfg.NewFrom(q.Elem().Interface(), o...)
		note(err)
		_, err = ucfg.NewFrom(reflect.Zero(typ).Interface(), o...)
		note(err)
		exercise(d, opts)
	}
	r.NonTrivialIf(errs > 0)
	r.ClassIf(c.Filled, "non-zero source")
	return goroutinesSettled()
}

var subSources = runlog.Register(&runlog.Sub[TargetCase]{
	Name:    "merge-sources",
	Rule:    "values (zero and filled with live channels, functions, non-nil pointers, one-element collections) of the same random types given to NewFrom and Merge directly, by pointer, as a map value and as a list element, under default/append/replace; the result is then read through every entry point; must return. Non-trivial: at least one call returns an error.",
	Gen:     genTarget,
	Run:     runSource,
	Journal: true,
})

func TestMergeSources(t *testing.T) { subSources.Check(t, 20000, 1500000) }

func TestReplay(t *testing.T) { runlog.ReplayMain(t) }
