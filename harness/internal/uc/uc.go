// Package uc wraps calls into go-ucfg the way every oracle needs them:
// dumping a config as generic data, recovering panics, naming policies.
package uc

import (
	"fmt"
	"runtime/debug"
	"strconv"

	ucfg "github.com/elastic/go-ucfg"

	"verif/harness/internal/model"
)

// PolicyOpts returns the global merge option of a model policy.
func PolicyOpts(p model.Policy) []ucfg.Option {
	switch p {
	case model.Replace:
		return []ucfg.Option{ucfg.ReplaceValues}
	case model.ReplaceArr:
		return []ucfg.Option{ucfg.ReplaceArrValues}
	case model.Append:
		return []ucfg.Option{ucfg.AppendValues}
	case model.Prepend:
		return []ucfg.Option{ucfg.PrependValues}
	}
	return nil
}

// Safe runs f and converts a panic into an error.
func Safe(what string, f func() error) (err error) {
	defer func() {
		if p := recover(); p != nil {
			s := string(debug.Stack())
			if len(s) > 2500 {
				s = s[:2500]
			}
			err = fmt.Errorf("%s panicked: %v\n%s", what, p, s)
		}
	}()
	return f()
}

// Dump returns the generic view of a config: the dictionary part unpacked
// into a map and, if the node also (or only) has a list part, the list part
// under numeric keys (or as a plain list when there is no dictionary part).
// Compare results with canon.EqualSplit, which makes both shapes equal.
func Dump(c *ucfg.Config, opts ...ucfg.Option) (out interface{}, err error) {
	err = Safe("Unpack", func() error {
		var m map[string]interface{}
		isArr := c.IsArray()
		if c.IsDict() || !isArr {
			if err := c.Unpack(&m, opts...); err != nil {
				return err
			}
			out = m
		}
		if isArr {
			var l []interface{}
			if err := c.Unpack(&l, opts...); err != nil {
				return err
			}
			if len(m) == 0 {
				out = l
			} else {
				for i, e := range l {
					m[strconv.Itoa(i)] = e
				}
			}
		}
		return nil
	})
	return out, err
}
