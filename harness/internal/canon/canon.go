// Package canon implements the canonical comparison of configuration data
// used by all oracles: numbers compare by mathematical value across
// int/uint/float kinds, -0 equals 0, NaN equals NaN, and nil, an absent key,
// an empty map and an empty list are one value. List positions are
// significant, map order is not.
package canon

import (
	"fmt"
	"math"
	"math/big"
	"reflect"
	"sort"
	"strconv"
	"strings"
)

// Num is the canonical form of a number.
type Num struct {
	Kind string // "int" (exact integer, in Int), "float" (non-integral or huge float), "nan", "+inf", "-inf"
	Int  string // decimal rendering of an exact integer
	F    float64
}

func numOfFloat(f float64) Num {
	switch {
	case math.IsNaN(f):
		return Num{Kind: "nan"}
	case math.IsInf(f, 1):
		return Num{Kind: "+inf"}
	case math.IsInf(f, -1):
		return Num{Kind: "-inf"}
	}
	if f == math.Trunc(f) {
		bf := new(big.Float).SetFloat64(f)
		bi, _ := bf.Int(nil)
		return Num{Kind: "int", Int: bi.String()}
	}
	return Num{Kind: "float", F: f}
}

// Of returns the canonical form of generic configuration data. Supported
// inputs: nil, bool, all integer and float kinds, string,
// map[string]interface{}, map[interface{}]interface{} (string keys),
// []interface{}, and anything else via reflection on maps/slices/arrays/
// pointers.
func Of(v interface{}) interface{} {
	switch x := v.(type) {
	case nil:
		return nil
	case bool, string:
		return x
	case int:
		return Num{Kind: "int", Int: strconv.FormatInt(int64(x), 10)}
	case int64:
		return Num{Kind: "int", Int: strconv.FormatInt(x, 10)}
	case uint64:
		return Num{Kind: "int", Int: strconv.FormatUint(x, 10)}
	case float64:
		return numOfFloat(x)
	case map[string]interface{}:
		m := map[string]interface{}{}
		for k, e := range x {
			if ce := Of(e); ce != nil {
				m[k] = ce
			}
		}
		if len(m) == 0 {
			return nil
		}
		return m
	case []interface{}:
		if len(x) == 0 {
			return nil
		}
		out := make([]interface{}, len(x))
		for i, e := range x {
			out[i] = Of(e)
		}
		return out
	}
	rv := reflect.ValueOf(v)
	switch rv.Kind() {
	case reflect.Int, reflect.Int8, reflect.Int16, reflect.Int32, reflect.Int64:
		return Num{Kind: "int", Int: strconv.FormatInt(rv.Int(), 10)}
	case reflect.Uint, reflect.Uint8, reflect.Uint16, reflect.Uint32, reflect.Uint64, reflect.Uintptr:
		return Num{Kind: "int", Int: strconv.FormatUint(rv.Uint(), 10)}
	case reflect.Float32, reflect.Float64:
		return numOfFloat(rv.Float())
	case reflect.Bool:
		return rv.Bool()
	case reflect.String:
		return rv.String()
	case reflect.Ptr, reflect.Interface:
		if rv.IsNil() {
			return nil
		}
		return Of(rv.Elem().Interface())
	case reflect.Map:
		m := map[string]interface{}{}
		iter := rv.MapRange()
		for iter.Next() {
			k := iter.Key()
			for k.Kind() == reflect.Interface {
				k = k.Elem()
			}
			if ce := Of(iter.Value().Interface()); ce != nil {
				m[fmt.Sprint(k.Interface())] = ce
			}
		}
		if len(m) == 0 {
			return nil
		}
		return m
	case reflect.Slice, reflect.Array:
		if rv.Len() == 0 {
			return nil
		}
		out := make([]interface{}, rv.Len())
		for i := range out {
			out[i] = Of(rv.Index(i).Interface())
		}
		return out
	}
	return fmt.Sprintf("<%T %v>", v, v)
}

// Split normalises a canonical value further for comparisons in which a node
// may carry both a dictionary and a list part: the library reifies such a node
// as one map with the list under numeric keys, and a node whose dictionary
// holds only nils as a list at the top level but as a map below it. Split
// turns every container into {named part without nils, list part} so that
// both shapes are equal. Only sound when numeric keys are not enabled.
func Split(v interface{}) interface{} {
	switch x := v.(type) {
	case map[string]interface{}:
		named := map[string]interface{}{}
		idx := map[int]interface{}{}
		max := -1
		for k, e := range x {
			if i, err := strconv.ParseInt(k, 0, 64); err == nil && i >= 0 && i < 1<<20 {
				idx[int(i)] = Split(e)
				if int(i) > max {
					max = int(i)
				}
				continue
			}
			if se := Split(e); se != nil {
				named[k] = se
			}
		}
		var list []interface{}
		for i := 0; i <= max; i++ {
			list = append(list, idx[i])
		}
		return mk(named, list)
	case []interface{}:
		list := make([]interface{}, len(x))
		for i, e := range x {
			list[i] = Split(e)
		}
		return mk(nil, list)
	}
	return v
}

type splitNode struct {
	Named map[string]interface{}
	List  []interface{}
}

func mk(named map[string]interface{}, list []interface{}) interface{} {
	// a trailing nil of a list part is not observable once the node is reified
	// as a map (nil entries are dropped), so it is dropped here as well
	for len(list) > 0 && list[len(list)-1] == nil {
		list = list[:len(list)-1]
	}
	if len(named) == 0 && len(list) == 0 {
		return nil
	}
	if len(named) == 0 {
		named = nil
	}
	if len(list) == 0 {
		list = nil
	}
	return splitNode{Named: named, List: list}
}

// Equal compares two canonical values.
func Equal(a, b interface{}) bool {
	switch x := a.(type) {
	case nil:
		return b == nil
	case Num:
		y, ok := b.(Num)
		if !ok || x.Kind != y.Kind {
			return false
		}
		if x.Kind == "int" {
			return x.Int == y.Int
		}
		if x.Kind == "float" {
			return x.F == y.F
		}
		return true
	case map[string]interface{}:
		y, ok := b.(map[string]interface{})
		if !ok || len(x) != len(y) {
			return false
		}
		for k, e := range x {
			f, ok := y[k]
			if !ok || !Equal(e, f) {
				return false
			}
		}
		return true
	case []interface{}:
		y, ok := b.([]interface{})
		if !ok || len(x) != len(y) {
			return false
		}
		for i := range x {
			if !Equal(x[i], y[i]) {
				return false
			}
		}
		return true
	case splitNode:
		y, ok := b.(splitNode)
		if !ok {
			return false
		}
		var xn, yn interface{}
		if x.Named != nil {
			xn = x.Named
		}
		if y.Named != nil {
			yn = y.Named
		}
		if !Equal(xn, yn) {
			return false
		}
		var xl, yl interface{}
		if x.List != nil {
			xl = x.List
		}
		if y.List != nil {
			yl = y.List
		}
		return Equal(xl, yl)
	}
	return reflect.DeepEqual(a, b)
}

// EqualData compares two pieces of generic data canonically.
func EqualData(a, b interface{}) bool { return Equal(Of(a), Of(b)) }

// EqualSplit compares two pieces of generic data after Split.
func EqualSplit(a, b interface{}) bool { return Equal(Split(Of(a)), Split(Of(b))) }

// String renders a canonical value deterministically.
func String(v interface{}) string {
	var b strings.Builder
	render(&b, v)
	return b.String()
}

// Show renders generic data canonically.
func Show(v interface{}) string { return String(Of(v)) }

func render(b *strings.Builder, v interface{}) {
	switch x := v.(type) {
	case nil:
		b.WriteString("nil")
	case Num:
		switch x.Kind {
		case "int":
			b.WriteString(x.Int)
		case "float":
			b.WriteString(strconv.FormatFloat(x.F, 'g', -1, 64))
		default:
			b.WriteString(x.Kind)
		}
	case string:
		b.WriteString(strconv.Quote(x))
	case bool:
		fmt.Fprint(b, x)
	case map[string]interface{}:
		keys := make([]string, 0, len(x))
		for k := range x {
			keys = append(keys, k)
		}
		sort.Strings(keys)
		b.WriteString("{")
		for i, k := range keys {
			if i > 0 {
				b.WriteString(", ")
			}
			b.WriteString(strconv.Quote(k) + ": ")
			render(b, x[k])
		}
		b.WriteString("}")
	case []interface{}:
		b.WriteString("[")
		for i, e := range x {
			if i > 0 {
				b.WriteString(", ")
			}
			render(b, e)
		}
		b.WriteString("]")
	case splitNode:
		b.WriteString("<")
		if x.Named != nil {
			render(b, x.Named)
		}
		b.WriteString("|")
		if x.List != nil {
			render(b, x.List)
		}
		b.WriteString(">")
	default:
		fmt.Fprintf(b, "%#v", v)
	}
}
