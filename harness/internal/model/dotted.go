package model

// Data trees whose object keys are dotted paths. With a path separator
// configured a key such as "l.02.x" of a map that is merged or handed to
// NewFrom names the setting x of element 2 of the list l (the package
// documentation: "a.b: 1" is "a: {b: 1}"); its segments are classified like
// the segments of any other path (key classification (vii): a segment that
// is an integer literal in [0, MaxIdx] - in ANY integer syntax - is a list
// index). Several keys of one object may lead into the same container as long
// as no setting is defined twice; then the object is the union of what its
// keys define, whatever the order of the keys.

import (
	"errors"
	"sort"
	"strings"

	"verif/harness/internal/gen"
)

// ErrConflict: two keys of one object define the same setting (or one walks
// through a primitive the other one defines). Such inputs are outside the
// domain of the history properties (duplicate keys are C06's).
var ErrConflict = errors.New("model: two keys of one object define the same setting")

// HasSepKey reports whether an object key of the tree contains the separator.
func HasSepKey(t *gen.Tree, sep string) bool {
	if t == nil || sep == "" {
		return false
	}
	found := false
	t.Walk(nil, func(_ []string, n *gen.Tree) {
		if n.K == "obj" {
			for _, k := range n.Keys {
				if strings.Contains(k, sep) {
					found = true
				}
			}
		}
	})
	return found
}

// FromTreeSep is FromTree (lists == false) or FromTreeLists (lists == true)
// for a tree whose object keys are split at sep. sep == "" (no path separator
// configured) and trees without a separator in any key give exactly what
// FromTree / FromTreeLists give.
func FromTreeSep(t *gen.Tree, sep string, lists bool) (*Node, error) {
	if !HasSepKey(t, sep) {
		if lists {
			return FromTreeLists(t), nil
		}
		return FromTree(t), nil
	}
	return fromTreeSep(t, sep, lists)
}

func fromTreeSep(t *gen.Tree, sep string, lists bool) (*Node, error) {
	switch t.K {
	case "nil":
		return NewNil(), nil
	case "list":
		n := NewCont()
		if lists && len(t.Vals) == 0 {
			n.Prim = EmptyList
		}
		for _, e := range t.Vals {
			c, err := fromTreeSep(e, sep, lists)
			if err != nil {
				return nil, err
			}
			n.A = append(n.A, c)
		}
		return n, nil
	case "obj":
		n := NewCont()
		// the outcome does not depend on the order of the keys for inputs without conflicts; a fixed
		// order keeps the function deterministic for the others
		order := make([]int, len(t.Keys))
		for i := range order {
			order[i] = i
		}
		sort.SliceStable(order, func(a, b int) bool { return t.Keys[order[a]] < t.Keys[order[b]] })
		for _, i := range order {
			c, err := fromTreeSep(t.Vals[i], sep, lists)
			if err != nil {
				return nil, err
			}
			var segs []Seg
			for _, p := range strings.Split(t.Keys[i], sep) {
				segs = append(segs, ClassifySeg(p))
			}
			if err := n.define(segs, c); err != nil {
				return nil, err
			}
		}
		return n, nil
	}
	return NewPrim(t.Prim()), nil
}

// define adds what one key of an object defines.
func (n *Node) define(segs []Seg, v *Node) error {
	old, err := n.Lookup(segs)
	switch err {
	case nil:
	case ErrMissing:
		old = nil
	default:
		return ErrConflict
	}
	switch {
	case old != nil && old.Kind != "nil" && v.Kind == "nil":
		return nil // a nil defines nothing
	case old == nil || old.Kind == "nil":
		_, err := n.SetPath(segs, v)
		return err
	case old.Kind == "cont" && v.Kind == "cont":
		return old.union(v)
	}
	return ErrConflict
}

// union adds the settings of from to the container to; no setting may be
// defined by both.
func (to *Node) union(from *Node) error {
	if from.Prim == EmptyList && len(to.A) == 0 {
		to.Prim = EmptyList
	}
	for _, k := range from.SortedKeys() {
		if err := to.define([]Seg{NameSeg(k)}, from.D[k]); err != nil {
			return err
		}
	}
	for i, e := range from.A {
		if err := to.define([]Seg{IdxSeg(i)}, e); err != nil {
			return err
		}
	}
	return nil
}
