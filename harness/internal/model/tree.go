package model

// Model (iii) of DESIGN.md section 3: a plain tree of dictionaries and lists
// addressed by (name, idx) pairs and dotted paths. It is what properties C12
// and C15 compare the low-level accessors of the library against:
//
//   - a path segment is a list index iff it is an integer literal in
//     [0, MaxIdx] (numeric keys are not enabled in these properties),
//   - a write past the end of a list pads with nils, a write below a nil or a
//     missing node builds the missing containers,
//   - removing a list element shifts the later elements down,
//   - index 0 of a primitive is the primitive itself when reading ("primitive
//     settings can be handled like a list with 1 entry"),
//   - walking through a primitive in any other way is an error and changes
//     nothing.
//
// Nodes are shared by pointer: a child handle of the library is modelled by a
// pointer to the model node, so a node that was overwritten or removed stays
// a consistent detached subtree.

import (
	"errors"
	"sort"
	"strconv"
	"strings"
	"sync"

	"verif/harness/internal/gen"
)

// MaxIdx is the library's default bound on list indices in paths.
const MaxIdx = 1024

// Seg is one step of an address: a named key or a list index.
type Seg struct {
	Name  string
	Idx   int
	IsIdx bool
}

func (s Seg) String() string {
	if s.IsIdx {
		return strconv.Itoa(s.Idx)
	}
	return s.Name
}

// NameSeg / IdxSeg construct segments.
func NameSeg(name string) Seg { return Seg{Name: name} }
func IdxSeg(i int) Seg        { return Seg{Idx: i, IsIdx: true} }

// ClassifySeg applies key classification (vii) to one path segment.
func ClassifySeg(s string) Seg {
	if i, ok := IndexOf(s, MaxIdx); ok {
		return IdxSeg(i)
	}
	return NameSeg(s)
}

// IndexSpellings lists path segments that, by key classification (vii), all
// denote list index i: every integer syntax of strconv.ParseInt with base 0
// (decimal, a leading 0 = octal, 0o/0O, 0x/0X, 0b/0B, digit separators) and an
// explicit sign ("+i", and "-0" for zero). The first entry is the plain
// decimal spelling. None of them contains a path separator.
func IndexSpellings(i int) []string {
	spellMu.Lock()
	defer spellMu.Unlock()
	if sp, ok := spellCache[i]; ok {
		return sp
	}
	sp := indexSpellings(i)
	spellCache[i] = sp
	return sp
}

var (
	spellMu    sync.Mutex
	spellCache = map[int][]string{}
)

func indexSpellings(i int) []string {
	dec := strconv.Itoa(i)
	oct := strconv.FormatInt(int64(i), 8)
	hex := strconv.FormatInt(int64(i), 16)
	bin := strconv.FormatInt(int64(i), 2)
	out := []string{
		dec, "+" + dec,
		"0" + oct, "00" + oct, "0_" + oct, "0o" + oct, "0O" + oct, "+0" + oct,
		"0x" + hex, "0X" + strings.ToUpper(hex), "0x0" + hex, "0x_" + hex, "+0x" + hex,
		"0b" + bin, "0B" + bin, "0b_" + bin,
	}
	if i == 0 {
		out = append(out, "-0", "-0x0", "-00")
	}
	if len(dec) > 1 {
		out = append(out, dec[:1]+"_"+dec[1:])
	}
	if len(bin) > 1 {
		out = append(out, "0b"+bin[:1]+"_"+bin[1:])
	}
	return out
}

// NearIndexNames are segments that look like numbers but are NOT list indices
// by classification (vii): ParseInt(base 0) rejects them, or the value is
// negative. They are ordinary named keys.
var NearIndexNames = []string{"08", "09", "0x", "0b2", "1e0", "1_", "_1", "1__0", "0_x1", "-1", "+", "+-1", " 1", "1 ", "１", "0o8", "0xg", "1025", "0x401"}

// ParseAddr turns a (name, idx) address into segments. sep == "" means no
// path separator is configured (the name is one segment). An empty name
// addresses the list part of the node itself (idx must be >= 0 then); idx < 0
// with a non-empty name means "no index".
func ParseAddr(name string, idx int, sep string) []Seg {
	if name == "" {
		return []Seg{IdxSeg(idx)}
	}
	parts := []string{name}
	if sep != "" {
		parts = strings.Split(name, sep)
	}
	out := make([]Seg, 0, len(parts)+1)
	for _, p := range parts {
		out = append(out, ClassifySeg(p))
	}
	if idx >= 0 {
		out = append(out, IdxSeg(idx))
	}
	return out
}

// JoinSegs renders segments as a path.
func JoinSegs(segs []Seg, sep string) string {
	parts := make([]string, len(segs))
	for i, s := range segs {
		parts[i] = s.String()
	}
	return strings.Join(parts, sep)
}

var (
	// ErrExpectedObject: the walk went through a primitive.
	ErrExpectedObject = errors.New("model: expected an object, found a primitive")
	// ErrMissing: the addressed setting does not exist.
	ErrMissing = errors.New("model: missing")
)

// NewCont returns an empty container.
func NewCont() *Node { return &Node{Kind: "cont"} }

// NewPrim returns a primitive node.
func NewPrim(v interface{}) *Node { return &Node{Kind: "prim", Prim: v} }

// NewNil returns a nil node.
func NewNil() *Node { return &Node{Kind: "nil"} }

// Step returns the child for one segment. (nil, nil) means a named key that
// is absent.
func (n *Node) Step(s Seg) (*Node, error) {
	switch n.Kind {
	case "prim":
		if s.IsIdx && s.Idx == 0 {
			return n, nil
		}
		return nil, ErrExpectedObject
	case "nil":
		// a nil counts as an empty container
		if s.IsIdx {
			return nil, ErrMissing
		}
		return nil, nil
	}
	if s.IsIdx {
		if s.Idx < 0 || s.Idx >= len(n.A) {
			return nil, ErrMissing
		}
		return n.A[s.Idx], nil
	}
	return n.D[s.Name], nil
}

// Lookup resolves an address for reading. Any failure (missing setting, walk
// through a primitive) is an error; ErrExpectedObject is kept distinguishable
// for Has.
func (n *Node) Lookup(segs []Seg) (*Node, error) {
	cur := n
	for _, s := range segs {
		c, err := cur.Step(s)
		if err != nil {
			return nil, err
		}
		if c == nil {
			return nil, ErrMissing
		}
		cur = c
	}
	return cur, nil
}

// HasPath models Config.Has: false for a missing setting, an error if a
// primitive is found in the middle of the traversal.
func (n *Node) HasPath(segs []Seg) (bool, error) {
	_, err := n.Lookup(segs)
	switch err {
	case nil:
		return true, nil
	case ErrMissing:
		return false, nil
	}
	return false, err
}

func (n *Node) put(s Seg, v *Node) error {
	if n.Kind != "cont" {
		return ErrExpectedObject
	}
	if s.IsIdx {
		if s.Idx < 0 {
			return ErrMissing
		}
		for len(n.A) <= s.Idx {
			n.A = append(n.A, NewNil())
		}
		n.A[s.Idx] = v
		return nil
	}
	if n.D == nil {
		n.D = map[string]*Node{}
	}
	n.D[s.Name] = v
	return nil
}

// SetPath writes v at the address: existing containers on the way are kept,
// the first missing or nil node on the way is replaced by freshly built
// containers, lists are padded with nils. Walking through a primitive is an
// error and changes nothing. The second result is the node that was replaced
// (nil if the address was free).
func (n *Node) SetPath(segs []Seg, v *Node) (old *Node, err error) {
	node := n
	i := 0
	for ; i < len(segs)-1; i++ {
		c, err := node.Step(segs[i])
		if err != nil {
			if err == ErrMissing {
				break
			}
			return nil, err
		}
		if c == nil || c.Kind == "nil" {
			break
		}
		node = c
	}
	if node.Kind != "cont" {
		return nil, ErrExpectedObject
	}
	rest := segs[i:]
	val := v
	for j := len(rest) - 1; j >= 1; j-- {
		nn := NewCont()
		if err := nn.put(rest[j], val); err != nil {
			return nil, err
		}
		val = nn
	}
	if c, err := node.Step(rest[0]); err == nil && c != nil {
		old = c
	}
	return old, node.put(rest[0], val)
}

// RemovePath removes the addressed setting. A missing setting is (false,
// nil); walking through a primitive is an error. The removed node is
// returned as well.
func (n *Node) RemovePath(segs []Seg) (removed bool, old *Node, err error) {
	cur := n
	for _, s := range segs[:len(segs)-1] {
		nx, err := cur.Step(s)
		if err != nil {
			if err == ErrMissing {
				return false, nil, nil
			}
			return false, nil, err
		}
		if nx == nil {
			return false, nil, nil
		}
		cur = nx
	}
	switch cur.Kind {
	case "prim":
		return false, nil, ErrExpectedObject
	case "nil":
		return false, nil, nil
	}
	last := segs[len(segs)-1]
	if last.IsIdx {
		if last.Idx < 0 || last.Idx >= len(cur.A) {
			return false, nil, nil
		}
		old = cur.A[last.Idx]
		cur.A = append(cur.A[:last.Idx:last.Idx], cur.A[last.Idx+1:]...)
		if len(cur.A) == 0 {
			// the last remaining element: what is left is a list with 0 elements
			cur.Prim = EmptyList
		}
		return true, old, nil
	}
	if o, ok := cur.D[last.Name]; ok {
		delete(cur.D, last.Name)
		return true, o, nil
	}
	return false, nil, nil
}

// SortedKeys returns the named keys of a container in sorted order.
func (n *Node) SortedKeys() []string {
	keys := make([]string, 0, len(n.D))
	for k := range n.D {
		keys = append(keys, k)
	}
	sort.Strings(keys)
	return keys
}

// Walk visits n and every node below it in a deterministic order (named keys
// sorted, then the list part) together with the segments leading to it.
func (n *Node) Walk(path []Seg, f func(path []Seg, n *Node)) {
	f(path, n)
	if n.Kind != "cont" {
		return
	}
	for _, k := range n.SortedKeys() {
		n.D[k].Walk(append(append([]Seg{}, path...), NameSeg(k)), f)
	}
	for i, e := range n.A {
		e.Walk(append(append([]Seg{}, path...), IdxSeg(i)), f)
	}
}

// MixedNode reports whether the node itself carries named keys and list
// elements at the same time.
func (n *Node) MixedNode() bool { return n.Kind == "cont" && len(n.D) > 0 && len(n.A) > 0 }

// Mixed reports whether any node of the subtree is mixed.
func (n *Node) Mixed() bool {
	if n.Kind != "cont" {
		return false
	}
	if n.MixedNode() {
		return true
	}
	for _, c := range n.D {
		if c.Mixed() {
			return true
		}
	}
	for _, c := range n.A {
		if c.Mixed() {
			return true
		}
	}
	return false
}

// Contains reports whether x is n or a node below n (by pointer).
func (n *Node) Contains(x *Node) bool {
	if n == x {
		return true
	}
	if n.Kind != "cont" {
		return false
	}
	for _, c := range n.D {
		if c.Contains(x) {
			return true
		}
	}
	for _, c := range n.A {
		if c.Contains(x) {
			return true
		}
	}
	return false
}

// PathTo returns the segments that lead from n to x (by pointer).
func (n *Node) PathTo(x *Node) (path []Seg, found bool) {
	n.Walk(nil, func(p []Seg, m *Node) {
		if m == x && !found {
			path, found = p, true
		}
	})
	return path, found
}

// Leaves returns the joined paths of all non-nil primitives below n, sorted.
func (n *Node) Leaves(sep string) []string {
	var out []string
	n.Walk(nil, func(p []Seg, m *Node) {
		if m.Kind == "prim" {
			out = append(out, JoinSegs(p, sep))
		}
	})
	sort.Strings(out)
	return out
}

// Empty reports whether a node holds nothing (nil or a container without
// entries).
func (n *Node) Empty() bool {
	return n.Kind == "nil" || (n.Kind == "cont" && len(n.D) == 0 && len(n.A) == 0)
}

// ---------------------------------------------------------------------------
// empty lists
//
// In a plain tree of dictionaries and lists a list does not stop being a list
// when it holds no element: a list whose elements were all removed, and an
// empty list that was written or merged in where nothing (or a primitive) was
// before, is a list with 0 elements. Such a container carries the EmptyList
// mark. The mark lives in the Prim field, which containers do not use
// otherwise, so that Copy (and with it MergeValues/MergeCont, which copy what
// they bring in) carries it along; it is never taken away again (a list that
// is refilled has elements, which is all IsList looks at then).

type emptyListMark struct{}

// EmptyList is the value of Prim that marks a container as "has a list part,
// which holds no element".
var EmptyList interface{} = emptyListMark{}

// IsList reports whether the node has a list part: it holds list elements, or
// it is a list that holds none (see EmptyList).
func (n *Node) IsList() bool {
	return n.Kind == "cont" && (len(n.A) > 0 || n.Prim == EmptyList)
}

// IsEmptyList: a pure list (no named keys) with 0 elements.
func (n *Node) IsEmptyList() bool {
	return n.Kind == "cont" && len(n.A) == 0 && len(n.D) == 0 && n.Prim == EmptyList
}

// FromTreeLists is FromTree with the empty lists of the tree marked as lists.
func FromTreeLists(t *gen.Tree) *Node {
	n := FromTree(t)
	markEmptyLists(t, n)
	return n
}

func markEmptyLists(t *gen.Tree, n *Node) {
	switch t.K {
	case "list":
		if len(t.Vals) == 0 {
			n.Prim = EmptyList
		}
		for i, e := range t.Vals {
			markEmptyLists(e, n.A[i])
		}
	case "obj":
		for i, k := range t.Keys {
			var c *Node
			if idx, ok := IndexOf(k, MaxIdx); ok {
				c = n.A[idx]
			} else {
				c = n.D[k]
			}
			markEmptyLists(t.Vals[i], c)
		}
	}
}

// EmptyListMeets reports whether merging from into to (containers) brings an
// empty list to a place where a nil or a container without a list part is:
// nothing is added there, and the statement does not say whether what is left
// is a list (the library leaves the old node as it was; for a nil that is an
// empty config which is no list). It mirrors the traversal of MergeCont.
func EmptyListMeets(pol Policy, to, from *Node) bool {
	if from.IsList() && len(from.A) == 0 && !to.IsList() {
		return true
	}
	if len(from.D) > 0 && pol != Replace {
		for k, v := range from.D {
			if old := to.D[k]; old != nil && emptyListMeetsValue(pol, old, v) {
				return true
			}
		}
	}
	if pol == Default {
		for i := 0; i < len(to.A) && i < len(from.A); i++ {
			if emptyListMeetsValue(pol, to.A[i], from.A[i]) {
				return true
			}
		}
	}
	return false
}

func emptyListMeetsValue(pol Policy, old, v *Node) bool {
	so, ok := asCont(old)
	if !ok {
		return false
	}
	sv, ok := asCont(v)
	if !ok {
		return false
	}
	return EmptyListMeets(pol, so, sv)
}

// HasEmptyList reports whether an empty list occurs anywhere in the tree.
func HasEmptyList(t *gen.Tree) bool {
	if t == nil {
		return false
	}
	found := false
	t.Walk(nil, func(_ []string, n *gen.Tree) {
		if n.K == "list" && len(n.Vals) == 0 {
			found = true
		}
	})
	return found
}
