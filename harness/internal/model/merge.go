// Package model holds the reference models the oracles compare the library
// against. They are written from the property statements and the package
// documentation, not from the implementation.
package model

import (
	"strconv"

	"verif/harness/internal/gen"
)

// Node is a model configuration node. A container carries a dictionary part
// and a list part (the library's nodes do as well: a key that is an integer
// literal addresses the list part).
type Node struct {
	Kind string // "nil", "prim", "cont"
	Prim interface{}
	D    map[string]*Node
	A    []*Node
}

// Policy is a merge policy.
type Policy int

const (
	Default Policy = iota
	Replace        // ReplaceValues
	ReplaceArr     // ReplaceArrValues
	Append
	Prepend
	NPolicies
)

func (p Policy) String() string {
	return [...]string{"default", "replace", "replace-arr", "append", "prepend"}[p]
}

// Copy deep-copies a node.
func (n *Node) Copy() *Node {
	if n == nil {
		return nil
	}
	m := &Node{Kind: n.Kind, Prim: n.Prim}
	if n.D != nil {
		m.D = make(map[string]*Node, len(n.D))
		for k, v := range n.D {
			m.D[k] = v.Copy()
		}
	}
	for _, v := range n.A {
		m.A = append(m.A, v.Copy())
	}
	return m
}

// IndexOf classifies a key without path separator and without numeric keys
// enabled: an integer literal (strconv base 0) in [0, maxIdx] is a list index.
func IndexOf(key string, maxIdx int64) (int, bool) {
	i, err := strconv.ParseInt(key, 0, 64)
	if err != nil || i < 0 || i > maxIdx {
		return 0, false
	}
	return int(i), true
}

// FromTree converts a data tree into a model node. Object keys that are list
// indices (numeric keys are not enabled) go to the list part, padding with nil.
func FromTree(t *gen.Tree) *Node {
	switch t.K {
	case "nil":
		return &Node{Kind: "nil"}
	case "obj":
		n := &Node{Kind: "cont"}
		for i, k := range t.Keys {
			v := FromTree(t.Vals[i])
			if idx, ok := IndexOf(k, 1024); ok {
				for len(n.A) <= idx {
					n.A = append(n.A, &Node{Kind: "nil"})
				}
				n.A[idx] = v
				continue
			}
			if n.D == nil {
				n.D = map[string]*Node{}
			}
			n.D[k] = v
		}
		return n
	case "list":
		n := &Node{Kind: "cont"}
		for _, e := range t.Vals {
			n.A = append(n.A, FromTree(e))
		}
		return n
	}
	return &Node{Kind: "prim", Prim: t.Prim()}
}

func asCont(n *Node) (*Node, bool) {
	switch n.Kind {
	case "cont":
		return n, true
	case "nil":
		return &Node{Kind: "cont"}, true
	}
	return nil, false
}

// PolicyAt selects the policy for the child reached by a name or index.
type PolicyAt func(parent Policy, name string, idx int) (Policy, PolicyAt)

// MergeValues: B's value wins unless both sides are containers (a nil counts
// as an empty container), which are merged recursively.
func MergeValues(pol Policy, at PolicyAt, old, v *Node) *Node {
	if old == nil {
		return v.Copy()
	}
	so, ok := asCont(old)
	if !ok {
		return v.Copy()
	}
	sv, ok := asCont(v)
	if !ok {
		return v.Copy()
	}
	MergeCont(pol, at, so, sv)
	return so
}

func child(pol Policy, at PolicyAt, name string, idx int) (Policy, PolicyAt) {
	if at == nil {
		return pol, nil
	}
	return at(pol, name, idx)
}

// MergeCont merges container from into container to under the policy.
func MergeCont(pol Policy, at PolicyAt, to, from *Node) {
	if len(from.D) > 0 {
		if pol == Replace {
			to.D = nil
		}
		for k, v := range from.D {
			if to.D == nil {
				to.D = map[string]*Node{}
			}
			cp, cat := child(pol, at, k, -1)
			to.D[k] = MergeValues(cp, cat, to.D[k], v)
		}
	}
	if len(from.A) == 0 {
		return
	}
	switch pol {
	case Replace, ReplaceArr:
		to.A = from.Copy().A
	case Prepend:
		to.A = append(from.Copy().A, to.A...)
	case Append:
		to.A = append(to.A, from.Copy().A...)
	default:
		l := len(to.A)
		if l > len(from.A) {
			l = len(from.A)
		}
		for i := 0; i < l; i++ {
			cp, cat := child(pol, at, "", i)
			to.A[i] = MergeValues(cp, cat, to.A[i], from.A[i])
		}
		if len(from.A) > l {
			to.A = append(to.A, from.Copy().A[l:]...)
		}
	}
}

// Reify renders the model node as generic data the way the library's generic
// view would: a container with only a list part is a list, otherwise a map
// with the list part under numeric keys.
func (n *Node) Reify() interface{} {
	switch n.Kind {
	case "nil":
		return nil
	case "prim":
		return n.Prim
	}
	if len(n.D) == 0 && len(n.A) == 0 {
		return nil
	}
	if len(n.D) == 0 {
		out := make([]interface{}, 0, len(n.A))
		for _, e := range n.A {
			out = append(out, e.Reify())
		}
		return out
	}
	m := map[string]interface{}{}
	for k, e := range n.D {
		m[k] = e.Reify()
	}
	for i, e := range n.A {
		m[strconv.Itoa(i)] = e.Reify()
	}
	return m
}
