package model

import "testing"

// The vocabulary of index spellings must agree with key classification (vii).
func TestIndexSpellings(t *testing.T) {
	for _, i := range []int{0, 1, 2, 3, 7, 8, 9, 10, 16, 63, 64, 100, 1023, 1024} {
		seen := map[string]bool{}
		for _, s := range IndexSpellings(i) {
			if seen[s] {
				t.Errorf("IndexSpellings(%d): duplicate %q", i, s)
			}
			seen[s] = true
			if sg := ClassifySeg(s); !sg.IsIdx || sg.Idx != i {
				t.Errorf("IndexSpellings(%d): %q is classified as %+v", i, s, sg)
			}
		}
	}
	for _, s := range NearIndexNames {
		if sg := ClassifySeg(s); sg.IsIdx {
			t.Errorf("NearIndexNames: %q is classified as index %d", s, sg.Idx)
		}
	}
}
