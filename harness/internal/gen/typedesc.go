package gen

import (
	"fmt"
	"math"
	"reflect"
	"regexp"
	"strconv"
	"strings"
	"time"

	"pgregory.net/rapid"
)

// TD is a JSON-serialisable description of a Go type. Types are built with
// reflect (StructOf etc.); kinds starting with "cat:" refer to the hand-written
// catalogue types registered with RegisterCat (they can carry methods, which
// StructOf types cannot).
type TD struct {
	Kind   string `json:"kind"` // bool int..uint64 float32 float64 string dur regexp iface ptr slice array map struct named:<prim> cat:<name>
	Elem   *TD    `json:"elem,omitempty"`
	N      int    `json:"n,omitempty"` // array length
	Fields []FD   `json:"fields,omitempty"`
	// Overlap: one field has a dotted name that leads into the namespace of a struct field of the same struct
	Overlap bool `json:"overlap,omitempty"`
}

// FD describes one struct field.
type FD struct {
	Name     string `json:"name"`               // Go field name (exported unless Unexp)
	Tag      string `json:"tag"`                // config name ("" = derived from the Go name)
	Inline   bool   `json:"inline,omitempty"`   // config:",inline"
	Ignore   bool   `json:"ignore,omitempty"`   // config:",ignore"
	Unexp    bool   `json:"unexp,omitempty"`    // unexported field
	Policy   string `json:"policy,omitempty"`   // replace | append | prepend | merge
	Validate string `json:"validate,omitempty"` // validate tag
	Alt      string `json:"alt,omitempty"`      // complete value of a second tag set `alt:"..."` (used with ucfg.StructTag("alt"))
	Embedded bool   `json:"embedded,omitempty"` // embedded (anonymous) field; only for fields of struct kind
	T        *TD    `json:"t"`
}

var PrimKinds = []string{"bool", "int", "int8", "int16", "int32", "int64", "uint", "uint8", "uint16", "uint32", "uint64", "float32", "float64", "string"}

// Named variants of primitive kinds.
type (
	NBool    bool
	NInt     int
	NInt8    int8
	NInt64   int64
	NUint    uint
	NUint16  uint16
	NUint64  uint64
	NFloat32 float32
	NFloat64 float64
	NString  string
)

var namedTypes = map[string]reflect.Type{
	"named:bool": reflect.TypeOf(NBool(false)), "named:int": reflect.TypeOf(NInt(0)), "named:int8": reflect.TypeOf(NInt8(0)),
	"named:int64": reflect.TypeOf(NInt64(0)), "named:uint": reflect.TypeOf(NUint(0)), "named:uint16": reflect.TypeOf(NUint16(0)),
	"named:uint64": reflect.TypeOf(NUint64(0)), "named:float32": reflect.TypeOf(NFloat32(0)), "named:float64": reflect.TypeOf(NFloat64(0)),
	"named:string": reflect.TypeOf(NString("")),
}

var NamedKinds = []string{"named:bool", "named:int", "named:int8", "named:int64", "named:uint", "named:uint16", "named:uint64", "named:float32", "named:float64", "named:string"}

var primTypes = map[string]reflect.Type{
	"bool": reflect.TypeOf(false), "int": reflect.TypeOf(int(0)), "int8": reflect.TypeOf(int8(0)), "int16": reflect.TypeOf(int16(0)),
	"int32": reflect.TypeOf(int32(0)), "int64": reflect.TypeOf(int64(0)), "uint": reflect.TypeOf(uint(0)), "uint8": reflect.TypeOf(uint8(0)),
	"uint16": reflect.TypeOf(uint16(0)), "uint32": reflect.TypeOf(uint32(0)), "uint64": reflect.TypeOf(uint64(0)),
	"float32": reflect.TypeOf(float32(0)), "float64": reflect.TypeOf(float64(0)), "string": reflect.TypeOf(""),
	"dur": reflect.TypeOf(time.Duration(0)), "regexp": reflect.TypeOf((*regexp.Regexp)(nil)),
	"iface": reflect.TypeOf((*interface{})(nil)).Elem(),
}

var RegexpType = primTypes["regexp"]

// Cat is a catalogue entry: a hand-written Go type usable as a field type.
type Cat struct {
	Type reflect.Type
	// Shape describes the type structurally (for value generation and
	// comparison); its Kind is the underlying kind of Type.
	Shape *TD
}

var catalogue = map[string]Cat{}

// RegisterCat adds a catalogue type under "cat:<name>".
func RegisterCat(name string, typ reflect.Type, shape *TD) { catalogue["cat:"+name] = Cat{typ, shape} }

// IsLeaf reports whether the kind is unpacked from a primitive setting.
func (td *TD) IsLeaf() bool {
	if _, ok := primTypes[td.Kind]; ok {
		return td.Kind != "iface"
	}
	_, ok := namedTypes[td.Kind]
	return ok
}

// Base returns the underlying primitive kind name ("int8", "string", "dur", ...) of leaf kinds.
func (td *TD) Base() string { return strings.TrimPrefix(td.Kind, "named:") }

// TagString renders the struct tag of a field.
func (f *FD) TagString() string {
	opts := ""
	if f.Inline {
		opts += ",inline"
	}
	if f.Ignore {
		opts += ",ignore"
	}
	if f.Policy != "" {
		opts += "," + f.Policy
	}
	tag := fmt.Sprintf(`config:"%s%s"`, f.Tag, opts)
	if f.Validate != "" {
		tag += fmt.Sprintf(` validate:"%s"`, f.Validate)
	}
	if f.Alt != "" {
		tag += fmt.Sprintf(` alt:"%s"`, f.Alt)
	}
	return tag
}

// ConfigName is the name under which the field appears in a configuration.
func (f *FD) ConfigName() string {
	if f.Tag != "" {
		return f.Tag
	}
	return strings.ToLower(f.Name)
}

const harnessPkgPath = "verif/harness/internal/gen"

// Type builds the reflect.Type.
func (td *TD) Type() reflect.Type {
	if t, ok := primTypes[td.Kind]; ok {
		return t
	}
	if t, ok := namedTypes[td.Kind]; ok {
		return t
	}
	if c, ok := catalogue[td.Kind]; ok {
		return c.Type
	}
	switch td.Kind {
	case "ptr":
		return reflect.PtrTo(td.Elem.Type())
	case "slice":
		return reflect.SliceOf(td.Elem.Type())
	case "array":
		return reflect.ArrayOf(td.N, td.Elem.Type())
	case "map":
		return reflect.MapOf(reflect.TypeOf(""), td.Elem.Type())
	case "struct":
		fs := make([]reflect.StructField, 0, len(td.Fields))
		for i := range td.Fields {
			f := &td.Fields[i]
			sf := reflect.StructField{Name: f.Name, Type: f.T.Type(), Tag: reflect.StructTag(f.TagString())}
			if f.Unexp {
				sf.PkgPath = harnessPkgPath
			}
			if f.Embedded && !f.Unexp && (f.T.Kind == "struct" || f.T.Kind == "ptr" && f.T.Elem.Kind == "struct") {
				sf.Anonymous = true
			}
			fs = append(fs, sf)
		}
		return reflect.StructOf(fs)
	}
	panic("gen: unknown type kind " + td.Kind)
}

// Shape returns the structural description (itself, or the catalogue shape).
func (td *TD) Shape() *TD {
	if c, ok := catalogue[td.Kind]; ok {
		return c.Shape
	}
	return td
}

// TV is a JSON-serialisable value of a described type, parallel to the TD.
type TV struct {
	Nil   bool     `json:"nil,omitempty"` // nil pointer / slice / map / regexp / interface
	B     bool     `json:"b,omitempty"`
	I     int64    `json:"i,omitempty"` // signed integers, durations (ns)
	U     uint64   `json:"u,omitempty"`
	F     string   `json:"f,omitempty"` // floats in 'x' form
	S     string   `json:"s,omitempty"` // strings, regexp source
	Keys  []string `json:"keys,omitempty"`
	Elems []*TV    `json:"elems,omitempty"` // slice/array elements, map values (by Keys), struct fields, ptr target (1), iface payload
	Tree  *Tree    `json:"tree,omitempty"`  // payload of an interface{} value
}

func floatOf(s string) float64 {
	switch s {
	case "":
		return 0
	case "NaN":
		return math.NaN()
	case "+Inf":
		return math.Inf(1)
	case "-Inf":
		return math.Inf(-1)
	}
	f, err := strconv.ParseFloat(s, 64)
	if err != nil {
		panic("gen: bad float " + s)
	}
	return f
}

func fstr(f float64) string { return strconv.FormatFloat(f, 'x', -1, 64) }

// Set stores the described value into v (which must be settable and of type td.Type()).
func (td *TD) Set(v reflect.Value, tv *TV) {
	sh := td.Shape()
	if tv == nil {
		return
	}
	switch b := sh.Base(); b {
	case "bool":
		v.SetBool(tv.B)
		return
	case "int", "int8", "int16", "int32", "int64", "dur":
		v.SetInt(tv.I)
		return
	case "uint", "uint8", "uint16", "uint32", "uint64":
		v.SetUint(tv.U)
		return
	case "float32", "float64":
		v.SetFloat(floatOf(tv.F))
		return
	case "string":
		v.SetString(tv.S)
		return
	case "regexp":
		if !tv.Nil {
			v.Set(reflect.ValueOf(regexp.MustCompile(tv.S)))
		}
		return
	case "iface":
		if !tv.Nil && tv.Tree != nil {
			if g := tv.Tree.Go(); g != nil {
				v.Set(reflect.ValueOf(g))
			}
		}
		return
	}
	switch sh.Kind {
	case "ptr":
		if tv.Nil {
			return
		}
		p := reflect.New(v.Type().Elem())
		sh.Elem.Set(p.Elem(), tv.Elems[0])
		v.Set(p)
	case "slice":
		if tv.Nil {
			return
		}
		s := reflect.MakeSlice(v.Type(), len(tv.Elems), len(tv.Elems))
		for i, e := range tv.Elems {
			sh.Elem.Set(s.Index(i), e)
		}
		v.Set(s)
	case "array":
		for i := 0; i < sh.N && i < len(tv.Elems); i++ {
			sh.Elem.Set(v.Index(i), tv.Elems[i])
		}
	case "map":
		if tv.Nil {
			return
		}
		m := reflect.MakeMapWithSize(v.Type(), len(tv.Keys))
		for i, k := range tv.Keys {
			e := reflect.New(v.Type().Elem()).Elem()
			sh.Elem.Set(e, tv.Elems[i])
			m.SetMapIndex(reflect.ValueOf(k).Convert(v.Type().Key()), e)
		}
		v.Set(m)
	case "struct":
		for i := range sh.Fields {
			if i >= len(tv.Elems) || tv.Elems[i] == nil {
				continue
			}
			fv := v.Field(i)
			if sh.Fields[i].Unexp {
				fv = reflect.NewAt(fv.Type(), fv.Addr().UnsafePointer()).Elem()
			}
			sh.Fields[i].T.Set(fv, tv.Elems[i])
		}
	default:
		panic("gen: cannot set kind " + sh.Kind)
	}
}

// New returns a pointer to a fresh value of the type holding tv (tv may be nil for the zero value).
func (td *TD) New(tv *TV) reflect.Value {
	p := reflect.New(td.Type())
	td.Set(p.Elem(), tv)
	return p
}

// ---------------------------------------------------------------------------
// generators

// TDCfg steers the type generator.
type TDCfg struct {
	Depth       int
	MaxFields   int
	Named       bool // named primitive variants
	Iface       bool // interface{} fields
	Inline      bool // inline structs
	InlineMap   bool // inline map next to named fields (finding D22)
	Ignore      bool // ignored and unexported fields
	Dotted      bool // dotted config names (need PathSep)
	EmptyTag    bool // fields without config name
	NumericTag  bool // fields renamed to a small number (addresses a list index)
	numTag      int
	wordIdx     int
	NoRegexp    bool
	NoArrays    bool
	Cats        []string // catalogue kinds usable as field types
	counter     *int
	PtrToArray  bool // allow *[N]T (finding D26 when nil)
	ArrayInMap  bool // allow map[string][N]T (not claimed by C06)
	NilPtrElems bool
}

func (c *TDCfg) next() int {
	if c.counter == nil {
		c.counter = new(int)
	}
	*c.counter++
	return *c.counter
}

// GenLeafKind draws a primitive kind (incl. dur, regexp and named variants).
func GenLeafKind(t *rapid.T, cfg *TDCfg) string {
	pool := append([]string{}, PrimKinds...)
	pool = append(pool, "dur", "int", "string", "uint64", "float64")
	if !cfg.NoRegexp {
		pool = append(pool, "regexp")
	}
	if cfg.Named {
		pool = append(pool, NamedKinds...)
	}
	return rapid.SampledFrom(pool).Draw(t, "prim")
}

func containsArray(td *TD) bool {
	for x := td; x != nil; x = x.Elem {
		if x.Kind == "array" {
			return true
		}
		if x.Kind != "ptr" {
			return false
		}
	}
	return false
}

// GenTD draws a type.
func GenTD(t *rapid.T, cfg *TDCfg, depth int) *TD {
	max := 10
	if depth <= 0 {
		max = 4
	}
	k := rapid.IntRange(0, max).Draw(t, "tk")
	switch {
	case k <= 4:
		if k == 4 && cfg.Iface && rapid.IntRange(0, 3).Draw(t, "if") == 0 {
			return &TD{Kind: "iface"}
		}
		if k == 3 && len(cfg.Cats) > 0 && rapid.IntRange(0, 1).Draw(t, "cat") == 0 {
			return &TD{Kind: rapid.SampledFrom(cfg.Cats).Draw(t, "catk")}
		}
		return &TD{Kind: GenLeafKind(t, cfg)}
	case k == 5:
		e := GenTD(t, cfg, depth-1)
		if e.Kind == "iface" || (!cfg.PtrToArray && containsArray(e)) {
			e = &TD{Kind: "int"}
		}
		return &TD{Kind: "ptr", Elem: e}
	case k == 6:
		return &TD{Kind: "slice", Elem: GenTD(t, cfg, depth-1)}
	case k == 7:
		if cfg.NoArrays {
			return &TD{Kind: "slice", Elem: GenTD(t, cfg, depth-1)}
		}
		return &TD{Kind: "array", N: rapid.IntRange(0, 3).Draw(t, "n"), Elem: GenTD(t, cfg, depth-1)}
	case k == 8:
		e := GenTD(t, cfg, depth-1)
		if !cfg.ArrayInMap && containsArray(e) {
			e = &TD{Kind: "int"}
		}
		return &TD{Kind: "map", Elem: e}
	default:
		return GenStructTD(t, cfg, depth)
	}
}

// GenStructTD draws a struct type with unique config names.
func GenStructTD(t *rapid.T, cfg *TDCfg, depth int) *TD {
	if cfg.MaxFields == 0 {
		cfg.MaxFields = 4
	}
	n := rapid.IntRange(1, cfg.MaxFields).Draw(t, "nf")
	td := &TD{Kind: "struct"}
	for i := 0; i < n; i++ {
		uniName := false
		f := FD{Name: fmt.Sprintf("F%d", i), Tag: fmt.Sprintf("f%d", cfg.next())}
		if rapid.IntRange(0, 5).Draw(t, "uniname") == 0 {
			// Go identifiers are not ASCII only: exported names that start with a non-ASCII upper-case letter
			f.Name = fmt.Sprintf("%s%d", rapid.SampledFrom([]string{"Ä", "Δ", "Éé", "Ω_", "Ñ"}).Draw(t, "uni"), i)
			uniName = true
		}
		opt := rapid.IntRange(0, 11).Draw(t, "fopt")
		switch {
		case opt == 0 && cfg.Inline:
			f.T = GenStructTD(t, cfg, depth-1)
			f.Inline = true
			f.Tag = ""
		case opt == 1 && cfg.Ignore:
			f.T = GenTD(t, cfg, depth-1)
			f.Ignore = true
		case opt == 2 && cfg.Ignore:
			f.T = GenTD(t, cfg, depth-1)
			f.Unexp = true
			f.Name = fmt.Sprintf("f%d", i)
		case opt == 3 && cfg.Dotted:
			f.T = GenTD(t, cfg, depth-1)
			f.Tag = fmt.Sprintf("d%d.e%d", cfg.next(), cfg.next())
		case opt == 5 && cfg.NumericTag:
			f.T = GenTD(t, cfg, depth-1)
			f.Tag = strconv.Itoa(cfg.numTag) // unique over the whole type, so inline structs cannot collide
			cfg.numTag++
		case opt == 6 && cfg.wordIdx < len(optionWords):
			// a field renamed to a word that is an option when it follows a comma (each word once per type, so that
			// inline structs cannot collide)
			f.Tag = optionWords[cfg.wordIdx]
			cfg.wordIdx++
			f.T = GenTD(t, cfg, depth-1)
		case opt == 4 && cfg.EmptyTag:
			f.T = GenTD(t, cfg, depth-1)
			f.Tag = ""
			f.Name = fmt.Sprintf("G%dx%d", i, cfg.next()) // config name = lower-cased field name, unique
			if uniName {
				f.Name = fmt.Sprintf("Ǆ%dx%d", i, cfg.next())
			}
		default:
			f.T = GenTD(t, cfg, depth-1)
		}
		if !f.Unexp && (f.T.Kind == "struct" || f.T.Kind == "ptr" && f.T.Elem.Kind == "struct") && rapid.IntRange(0, 2).Draw(t, "embed") == 0 {
			// an embedded struct: with a name of its own, named after the field (no tag name) or inlined
			f.Embedded = true
		}
		td.Fields = append(td.Fields, f)
	}
	if cfg.Dotted && depth > 0 && rapid.IntRange(0, 3).Draw(t, "overlap") == 0 {
		// a dotted name that leads INTO the namespace of a struct field of this struct (server.tls.port next to
		// the struct field server, whose field tls is a struct again), declared before or after that field
		var cands []int
		for i, f := range td.Fields {
			if plainStructField(f) {
				cands = append(cands, i)
			}
		}
		if len(cands) > 0 {
			i := rapid.SampledFrom(cands).Draw(t, "ovf")
			path := td.Fields[i].Tag
			cur := td.Fields[i].T
			for d := rapid.IntRange(0, 2).Draw(t, "ovdepth"); d > 0; d-- {
				var sub []FD
				for _, f := range cur.Fields {
					if plainStructField(f) {
						sub = append(sub, f)
					}
				}
				if len(sub) == 0 {
					break
				}
				f := rapid.SampledFrom(sub).Draw(t, "ovsub")
				path += "." + f.Tag
				cur = f.T
			}
			nf := FD{Name: fmt.Sprintf("O%d", cfg.next()), Tag: fmt.Sprintf("%s.x%d", path, cfg.next()), T: &TD{Kind: GenLeafKind(t, cfg)}}
			at := rapid.IntRange(0, len(td.Fields)).Draw(t, "ovat")
			td.Fields = append(td.Fields[:at], append([]FD{nf}, td.Fields[at:]...)...)
			td.Overlap = true
		}
	}
	return td
}

var optionWords = []string{"ignore", "inline", "squash", "merge", "replace", "append", "prepend"}

func indexOf(l []string, s string) int {
	for i, x := range l {
		if x == s {
			return i
		}
	}
	return 0
}

// plainStructField: a field of struct kind (no pointer) with a plain, non-numeric name of its own.
func plainStructField(f FD) bool {
	if f.Inline || f.Ignore || f.Unexp || f.Tag == "" || f.T == nil || f.T.Kind != "struct" || strings.Contains(f.Tag, ".") {
		return false
	}
	if _, err := strconv.Atoi(f.Tag); err == nil {
		return false
	}
	return true
}

var (
	strPool = []string{"", "a", "${x}", "a.b", "a,b", "{x}", "$", "[1]", "1", "true", " pad ", "null", "$$", "${", "}", "x:y", "-1", "é"}
	rePool  = []string{"", "a.*b$", "^[0-9]+", `\$\{x\}`, "a,b", "[a-c]{2}", "^ERROR ", " ", "\\d+\n", " a", "\tb ", "x  "}
	keyPool = []string{"k", "j", "a b", "$", "x,y", "K", "é"}
)

// GenTV draws a value of the described type. inColl is true inside slices,
// arrays and maps, where nil pointers are not generated unless allowed.
func GenTV(t *rapid.T, cfg *TDCfg, td *TD, inColl bool) *TV {
	sh := td.Shape()
	switch b := sh.Base(); b {
	case "bool":
		return &TV{B: rapid.Bool().Draw(t, "b")}
	case "int", "int8", "int16", "int32", "int64":
		bits := td.Type().Bits()
		min := int64(-1) << (bits - 1)
		max := int64(1)<<(bits-1) - 1
		pool := []int64{0, 1, -1, min, max, 42, min + 1, max - 1}
		if bits == 64 {
			pool = append(pool, 1<<53+1, -(1<<53 + 1)) // not representable as float64
		}
		return &TV{I: rapid.SampledFrom(pool).Draw(t, "i")}
	case "dur":
		if rapid.Bool().Draw(t, "dcomposed") {
			// whole seconds of any magnitude plus or minus a few nanoseconds
			secs := rapid.SampledFrom([]int64{0, 1, 59, 3600, 86400, 1 << 24, 1<<24 + 1, 365 * 86400, 1 << 30, 1 << 33, 9223372035}).Draw(t, "dsecs")
			ns := rapid.SampledFrom([]int64{0, 1, -1, 500, 999999999, 1000, 1000000}).Draw(t, "dns")
			d := secs*int64(time.Second) + ns
			if rapid.Bool().Draw(t, "dneg") {
				d = -d
			}
			return &TV{I: d}
		}
		return &TV{I: rapid.SampledFrom([]int64{0, 1, -1, math.MinInt64, math.MaxInt64, int64(90 * time.Minute), 1500000000, -1500000001, int64(time.Second)}).Draw(t, "d")}
	case "uint", "uint8", "uint16", "uint32", "uint64":
		bits := td.Type().Bits()
		max := uint64(1)<<uint(bits) - 1
		if bits == 64 {
			max = math.MaxUint64
		}
		pool := []uint64{0, 1, max, max / 2, max/2 + 1, 7}
		if bits == 64 {
			pool = append(pool, 1<<53+1, max-1)
		}
		return &TV{U: rapid.SampledFrom(pool).Draw(t, "u")}
	case "float32":
		return &TV{F: fstr(float64(rapid.SampledFrom([]float32{0, 1.5, -2.25, math.MaxFloat32, math.SmallestNonzeroFloat32, float32(math.Inf(1)), 16777216, 0.1}).Draw(t, "f32")))}
	case "float64":
		return &TV{F: fstr(rapid.SampledFrom([]float64{0, 1.5, -2.25, math.MaxFloat64, math.SmallestNonzeroFloat64, math.Inf(-1), 1e21, 123456789.125, math.Copysign(0, -1), math.NaN(), 9007199254740993, 0.1}).Draw(t, "f64"))}
	case "string":
		return &TV{S: rapid.SampledFrom(strPool).Draw(t, "s")}
	case "regexp":
		if !inColl && rapid.Bool().Draw(t, "renil") {
			return &TV{Nil: true}
		}
		return &TV{S: rapid.SampledFrom(rePool).Draw(t, "re")}
	case "iface":
		if rapid.IntRange(0, 3).Draw(t, "ifnil") == 0 {
			return &TV{Nil: true}
		}
		return &TV{Tree: GenTree(t, &TreeCfg{Depth: 2, Width: 3, NoNil: true, NoEmpty: true, Strings: strPool}, 2)}
	}
	switch sh.Kind {
	case "ptr":
		if (!inColl || cfg.NilPtrElems) && rapid.IntRange(0, 2).Draw(t, "pnil") == 0 {
			return &TV{Nil: true}
		}
		return &TV{Elems: []*TV{GenTV(t, cfg, sh.Elem, inColl)}}
	case "slice":
		n := rapid.IntRange(-1, 3).Draw(t, "len")
		if n < 0 {
			return &TV{Nil: true}
		}
		tv := &TV{Elems: []*TV{}}
		for i := 0; i < n; i++ {
			tv.Elems = append(tv.Elems, GenTV(t, cfg, sh.Elem, true))
		}
		return tv
	case "array":
		tv := &TV{Elems: []*TV{}}
		for i := 0; i < sh.N; i++ {
			tv.Elems = append(tv.Elems, GenTV(t, cfg, sh.Elem, true))
		}
		return tv
	case "map":
		n := rapid.IntRange(-1, 3).Draw(t, "len")
		if n < 0 {
			return &TV{Nil: true}
		}
		tv := &TV{Keys: []string{}, Elems: []*TV{}}
		seen := map[string]bool{}
		for i := 0; i < n; i++ {
			k := rapid.SampledFrom(keyPool).Draw(t, "mk")
			if seen[k] {
				continue
			}
			seen[k] = true
			tv.Keys = append(tv.Keys, k)
			tv.Elems = append(tv.Elems, GenTV(t, cfg, sh.Elem, true))
		}
		return tv
	case "struct":
		tv := &TV{Elems: []*TV{}}
		for i := range sh.Fields {
			tv.Elems = append(tv.Elems, GenTV(t, cfg, sh.Fields[i].T, inColl))
		}
		return tv
	}
	panic("gen: cannot generate value of kind " + sh.Kind)
}

// ---------------------------------------------------------------------------
// comparison

// EqualValues compares two values of the same type canonically: nil and empty
// collections are equal, NaN equals NaN, regular expressions compare by
// source, pointers by pointee (a chain ending in nil is "no value" whatever
// its length), unexported fields are compared bit for bit.
func EqualValues(a, b reflect.Value) bool {
	if a.Type() != b.Type() {
		return false
	}
	a, b = Exported(a), Exported(b)
	switch a.Kind() {
	case reflect.Ptr:
		if a.Type() == RegexpType {
			if a.IsNil() || b.IsNil() {
				return a.IsNil() == b.IsNil()
			}
			return a.Interface().(*regexp.Regexp).String() == b.Interface().(*regexp.Regexp).String()
		}
		if a.IsNil() || b.IsNil() {
			return endsNil(a) && endsNil(b)
		}
		return EqualValues(a.Elem(), b.Elem())
	case reflect.Interface:
		if a.IsNil() || b.IsNil() {
			return emptyish(a) && emptyish(b)
		}
		return ifaceEqual(a.Elem().Interface(), b.Elem().Interface())
	case reflect.Slice:
		if a.Len() != b.Len() {
			return false
		}
		for i := 0; i < a.Len(); i++ {
			if !EqualValues(a.Index(i), b.Index(i)) {
				return false
			}
		}
		return true
	case reflect.Array:
		for i := 0; i < a.Len(); i++ {
			if !EqualValues(a.Index(i), b.Index(i)) {
				return false
			}
		}
		return true
	case reflect.Map:
		if a.Type().Elem().Kind() == reflect.Interface {
			// nil-valued entries of a generic map are "no value", like absent keys
			for _, p := range [][2]reflect.Value{{a, b}, {b, a}} {
				iter := p[0].MapRange()
				for iter.Next() {
					ov := p[1].MapIndex(iter.Key())
					if !ov.IsValid() {
						if !emptyish(iter.Value()) {
							return false
						}
						continue
					}
					if !EqualValues(addressable(iter.Value()), addressable(ov)) {
						return false
					}
				}
			}
			return true
		}
		if a.Len() != b.Len() {
			return false
		}
		iter := a.MapRange()
		for iter.Next() {
			bv := b.MapIndex(iter.Key())
			if !bv.IsValid() || !EqualValues(addressable(iter.Value()), addressable(bv)) {
				return false
			}
		}
		return true
	case reflect.Struct:
		for i := 0; i < a.NumField(); i++ {
			if !EqualValues(a.Field(i), b.Field(i)) {
				return false
			}
		}
		return true
	case reflect.Float32, reflect.Float64:
		return a.Float() == b.Float() || (math.IsNaN(a.Float()) && math.IsNaN(b.Float()))
	case reflect.Bool:
		return a.Bool() == b.Bool()
	case reflect.Int, reflect.Int8, reflect.Int16, reflect.Int32, reflect.Int64:
		return a.Int() == b.Int()
	case reflect.Uint, reflect.Uint8, reflect.Uint16, reflect.Uint32, reflect.Uint64, reflect.Uintptr:
		return a.Uint() == b.Uint()
	case reflect.String:
		return a.String() == b.String()
	}
	return false
}

// addressable returns an addressable copy of v (map elements are not
// addressable, which would make their unexported fields unreadable).
func addressable(v reflect.Value) reflect.Value {
	if v.CanAddr() || !v.CanInterface() {
		return v
	}
	n := reflect.New(v.Type()).Elem()
	n.Set(v)
	return n
}

// Exported returns v in a form whose Interface method may be called, even if
// v was obtained through an unexported struct field (v must be addressable).
func Exported(v reflect.Value) reflect.Value {
	if !v.CanInterface() && v.CanAddr() {
		return reflect.NewAt(v.Type(), v.Addr().UnsafePointer()).Elem()
	}
	return v
}

func endsNil(v reflect.Value) bool {
	for v.Kind() == reflect.Ptr && v.Type() != RegexpType {
		if v.IsNil() {
			return true
		}
		v = v.Elem()
	}
	return v.Kind() == reflect.Ptr && v.IsNil()
}

func emptyish(v reflect.Value) bool {
	if v.IsNil() {
		return true
	}
	e := v.Elem()
	switch e.Kind() {
	case reflect.Map, reflect.Slice:
		return e.Len() == 0
	}
	return false
}

// IfaceEqual is set by the canon package user to compare interface{} payloads
// canonically (avoids an import cycle); defaults to reflect.DeepEqual.
var IfaceEqual func(a, b interface{}) bool

func ifaceEqual(a, b interface{}) bool {
	if IfaceEqual != nil {
		return IfaceEqual(a, b)
	}
	return reflect.DeepEqual(a, b)
}

// Show renders a value for messages (regexps by source, pointers followed).
func Show(v reflect.Value) string {
	var b strings.Builder
	show(&b, v, 0)
	return b.String()
}

func show(b *strings.Builder, v reflect.Value, depth int) {
	v = Exported(v)
	if depth > 12 {
		b.WriteString("…")
		return
	}
	switch v.Kind() {
	case reflect.Ptr:
		if v.IsNil() {
			b.WriteString("nil")
			return
		}
		if v.Type() == RegexpType {
			fmt.Fprintf(b, "re(%q)", v.Interface().(*regexp.Regexp).String())
			return
		}
		b.WriteString("&")
		show(b, v.Elem(), depth+1)
	case reflect.Interface:
		if v.IsNil() {
			b.WriteString("nil")
			return
		}
		fmt.Fprintf(b, "%#v", v.Elem().Interface())
	case reflect.Slice, reflect.Array:
		if v.Kind() == reflect.Slice && v.IsNil() {
			b.WriteString("nil[]")
			return
		}
		b.WriteString("[")
		for i := 0; i < v.Len(); i++ {
			if i > 0 {
				b.WriteString(" ")
			}
			show(b, v.Index(i), depth+1)
		}
		b.WriteString("]")
	case reflect.Map:
		if v.IsNil() {
			b.WriteString("nil{}")
			return
		}
		keys := v.MapKeys()
		strs := make([]string, len(keys))
		for i, k := range keys {
			strs[i] = fmt.Sprint(k.Interface())
		}
		// deterministic order
		for i := range strs {
			for j := i + 1; j < len(strs); j++ {
				if strs[j] < strs[i] {
					strs[i], strs[j] = strs[j], strs[i]
					keys[i], keys[j] = keys[j], keys[i]
				}
			}
		}
		b.WriteString("{")
		for i, k := range keys {
			if i > 0 {
				b.WriteString(" ")
			}
			fmt.Fprintf(b, "%q:", strs[i])
			show(b, addressable(v.MapIndex(k)), depth+1)
		}
		b.WriteString("}")
	case reflect.Struct:
		b.WriteString("{")
		for i := 0; i < v.NumField(); i++ {
			if i > 0 {
				b.WriteString(" ")
			}
			f := v.Type().Field(i)
			fmt.Fprintf(b, "%s(%s):", f.Name, f.Tag.Get("config"))
			show(b, v.Field(i), depth+1)
		}
		b.WriteString("}")
	case reflect.Float32, reflect.Float64:
		fmt.Fprintf(b, "%v", v.Float())
	case reflect.String:
		fmt.Fprintf(b, "%q", v.String())
	case reflect.Bool:
		fmt.Fprint(b, v.Bool())
	case reflect.Int, reflect.Int8, reflect.Int16, reflect.Int32, reflect.Int64:
		fmt.Fprint(b, v.Int())
	case reflect.Uint, reflect.Uint8, reflect.Uint16, reflect.Uint32, reflect.Uint64, reflect.Uintptr:
		fmt.Fprint(b, v.Uint())
	default:
		fmt.Fprintf(b, "<%s>", v.Kind())
	}
}
