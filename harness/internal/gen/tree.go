// Package gen holds the shared, JSON-serialisable case building blocks (data
// trees, representations, type descriptors) and their rapid generators.
package gen

import (
	"fmt"
	"math"
	"reflect"
	"regexp"
	"strconv"

	ucfg "github.com/elastic/go-ucfg"
	"pgregory.net/rapid"
)

// Tree is a JSON-serialisable data tree. Objects keep their keys in insertion
// order (Keys[i] belongs to Vals[i]); R selects the Go representation used by
// GoRepr and is ignored by Go.
type Tree struct {
	K    string   `json:"k"` // nil bool int uint float str obj list
	B    bool     `json:"b,omitempty"`
	I    int64    `json:"i,omitempty"`
	U    uint64   `json:"u,omitempty"`
	F    string   `json:"f,omitempty"` // float64 in strconv 'x' form, so that NaN and Inf survive JSON
	S    string   `json:"s,omitempty"`
	Keys []string `json:"keys,omitempty"`
	Vals []*Tree  `json:"vals,omitempty"`
	R    int      `json:"r,omitempty"`
}

func Nil() *Tree             { return &Tree{K: "nil"} }
func Bool(b bool) *Tree      { return &Tree{K: "bool", B: b} }
func Int(i int64) *Tree      { return &Tree{K: "int", I: i} }
func Uint(u uint64) *Tree    { return &Tree{K: "uint", U: u} }
func Str(s string) *Tree     { return &Tree{K: "str", S: s} }
func Float(f float64) *Tree  { return &Tree{K: "float", F: strconv.FormatFloat(f, 'x', -1, 64)} }
func List(v ...*Tree) *Tree  { return &Tree{K: "list", Vals: v} }
func Obj() *Tree             { return &Tree{K: "obj"} }
func (t *Tree) IsCont() bool { return t.K == "obj" || t.K == "list" }
func (t *Tree) IsPrim() bool { return !t.IsCont() && t.K != "nil" }

// FloatVal decodes the float payload.
func (t *Tree) FloatVal() float64 {
	f, err := strconv.ParseFloat(t.F, 64)
	if err != nil {
		switch t.F {
		case "NaN":
			return math.NaN()
		case "+Inf":
			return math.Inf(1)
		case "-Inf":
			return math.Inf(-1)
		}
		panic("bad float in case: " + t.F)
	}
	return f
}

// Put appends or overwrites key k of an object.
func (t *Tree) Put(k string, v *Tree) *Tree {
	for i, e := range t.Keys {
		if e == k {
			t.Vals[i] = v
			return t
		}
	}
	t.Keys = append(t.Keys, k)
	t.Vals = append(t.Vals, v)
	return t
}

// Get returns the value of key k of an object or nil.
func (t *Tree) Get(k string) *Tree {
	for i, e := range t.Keys {
		if e == k {
			return t.Vals[i]
		}
	}
	return nil
}

// Clone deep-copies the tree.
func (t *Tree) Clone() *Tree {
	if t == nil {
		return nil
	}
	c := *t
	c.Keys = append([]string(nil), t.Keys...)
	c.Vals = nil
	for _, v := range t.Vals {
		c.Vals = append(c.Vals, v.Clone())
	}
	return &c
}

// Prim returns the Go value of a primitive or nil node.
func (t *Tree) Prim() interface{} {
	switch t.K {
	case "nil":
		return nil
	case "bool":
		return t.B
	case "int":
		return t.I
	case "uint":
		return t.U
	case "float":
		return t.FloatVal()
	case "str":
		return t.S
	}
	panic("not a primitive: " + t.K)
}

// Go materialises the tree as generic Go data: map[string]interface{} (keys
// inserted in the stated order), []interface{} and primitives.
func (t *Tree) Go() interface{} {
	switch t.K {
	case "obj":
		m := make(map[string]interface{}, len(t.Keys))
		for i, k := range t.Keys {
			m[k] = t.Vals[i].Go()
		}
		return m
	case "list":
		a := make([]interface{}, 0, len(t.Vals))
		for _, v := range t.Vals {
			a = append(a, v.Go())
		}
		return a
	}
	return t.Prim()
}

// Depth of the tree (a primitive has depth 0).
func (t *Tree) Depth() int {
	d := 0
	for _, v := range t.Vals {
		if x := v.Depth() + 1; x > d {
			d = x
		}
	}
	if t.IsCont() && d == 0 {
		d = 1
	}
	return d
}

// Walk visits every node with its path.
func (t *Tree) Walk(path []string, f func(path []string, n *Tree)) {
	f(path, t)
	for i, v := range t.Vals {
		seg := strconv.Itoa(i)
		if t.K == "obj" {
			seg = t.Keys[i]
		}
		v.Walk(append(append([]string{}, path...), seg), f)
	}
}

// ---------------------------------------------------------------------------
// representations

var simpleKey = regexp.MustCompile(`^[A-Za-z_][A-Za-z0-9_]*$`)

// Number of representation choices GoRepr distinguishes.
const NRepr = 8

// GoRepr materialises the tree choosing the Go representation of every
// container by its R field:
//
//	objects: 0 map[string]interface{}  1 map[interface{}]interface{}  2 StructOf struct with config tags
//	         3 *ucfg.Config  4 pointer to map  5 named map type  6 map[string]T (homogeneous children) 7 pointer to struct
//	lists:   0 []interface{}  1 []T (homogeneous)  2 [N]interface{}  3 *ucfg.Config  4 pointer to slice
//	         5 named slice type  6 [N]T  7 []interface{}
//
// A choice that is impossible for the node (keys that cannot be struct tags,
// heterogeneous children) falls back to choice 0. opts are used for embedded
// configs. The second result reports which representations were used.
func (t *Tree) GoRepr(opts []ucfg.Option, used map[string]int) (interface{}, error) {
	switch t.K {
	case "obj":
		switch t.R % NRepr {
		case 1:
			m := make(map[interface{}]interface{}, len(t.Keys))
			for i, k := range t.Keys {
				v, err := t.Vals[i].GoRepr(opts, used)
				if err != nil {
					return nil, err
				}
				m[k] = v
			}
			used["map[interface{}]"]++
			return m, nil
		case 2, 7:
			ok := len(t.Keys) > 0
			for _, k := range t.Keys {
				if !simpleKey.MatchString(k) {
					ok = false
				}
			}
			if !ok {
				break
			}
			vals := make([]interface{}, len(t.Keys))
			fields := make([]reflect.StructField, len(t.Keys))
			for i, k := range t.Keys {
				v, err := t.Vals[i].GoRepr(opts, used)
				if err != nil {
					return nil, err
				}
				vals[i] = v
				ft := reflect.TypeOf((*interface{})(nil)).Elem()
				if v != nil && (t.R/NRepr)%2 == 1 {
					ft = reflect.TypeOf(v) // concretely typed field
				}
				fields[i] = reflect.StructField{Name: fmt.Sprintf("F%d", i), Type: ft, Tag: reflect.StructTag(fmt.Sprintf(`config:"%s"`, k))}
			}
			sv := reflect.New(reflect.StructOf(fields)).Elem()
			for i, v := range vals {
				if v != nil {
					sv.Field(i).Set(reflect.ValueOf(v))
				}
			}
			if t.R%NRepr == 7 {
				p := reflect.New(sv.Type())
				p.Elem().Set(sv)
				used["*struct"]++
				return p.Interface(), nil
			}
			used["struct"]++
			return sv.Interface(), nil
		case 3:
			c, err := ucfg.NewFrom(t.Go(), opts...)
			if err != nil {
				return nil, err
			}
			used["*Config"]++
			return c, nil
		case 4:
			m, err := t.genericMap(opts, used)
			if err != nil {
				return nil, err
			}
			used["*map"]++
			return &m, nil
		case 5:
			m, err := t.genericMap(opts, used)
			if err != nil {
				return nil, err
			}
			used["named map"]++
			return namedMap(m), nil
		case 6:
			if hv, ok := t.homogeneous(); ok && len(t.Vals) > 0 {
				mt := reflect.MapOf(reflect.TypeOf(""), reflect.TypeOf(hv))
				m := reflect.MakeMapWithSize(mt, len(t.Keys))
				for i, k := range t.Keys {
					m.SetMapIndex(reflect.ValueOf(k), reflect.ValueOf(t.Vals[i].Prim()))
				}
				used["map[string]T"]++
				return m.Interface(), nil
			}
		}
		m, err := t.genericMap(opts, used)
		if err != nil {
			return nil, err
		}
		used["map[string]interface{}"]++
		return m, nil
	case "list":
		elems := make([]interface{}, len(t.Vals))
		for i, v := range t.Vals {
			e, err := v.GoRepr(opts, used)
			if err != nil {
				return nil, err
			}
			elems[i] = e
		}
		switch t.R % NRepr {
		case 1, 6:
			if hv, ok := t.homogeneous(); ok && len(t.Vals) > 0 {
				st := reflect.SliceOf(reflect.TypeOf(hv))
				s := reflect.MakeSlice(st, len(elems), len(elems))
				for i := range elems {
					s.Index(i).Set(reflect.ValueOf(t.Vals[i].Prim()))
				}
				if t.R%NRepr == 6 {
					a := reflect.New(reflect.ArrayOf(len(elems), reflect.TypeOf(hv))).Elem()
					reflect.Copy(a, s)
					used["[N]T"]++
					return a.Interface(), nil
				}
				used["[]T"]++
				return s.Interface(), nil
			}
		case 2:
			a := reflect.New(reflect.ArrayOf(len(elems), reflect.TypeOf((*interface{})(nil)).Elem())).Elem()
			for i, e := range elems {
				if e != nil {
					a.Index(i).Set(reflect.ValueOf(e))
				}
			}
			used["[N]interface{}"]++
			return a.Interface(), nil
		case 3:
			c, err := ucfg.NewFrom(t.Go(), opts...)
			if err != nil {
				return nil, err
			}
			used["*Config(list)"]++
			return c, nil
		case 4:
			used["*[]interface{}"]++
			return &elems, nil
		case 5:
			used["named slice"]++
			return namedSlice(elems), nil
		}
		used["[]interface{}"]++
		return elems, nil
	}
	if t.K == "nil" && t.R > 0 {
		// a nil pointer of some type: a nil value like the untyped nil
		used["typed nil pointer"]++
		return typedNils[(t.R-1)%len(typedNils)], nil
	}
	return t.Prim(), nil
}

var typedNils = []interface{}{(*int)(nil), (*string)(nil), (*struct{ A int })(nil), (*map[string]interface{})(nil), (*[]interface{})(nil), (**bool)(nil), (*ucfg.Config)(nil)}

type namedMap map[string]interface{}
type namedSlice []interface{}

func (t *Tree) genericMap(opts []ucfg.Option, used map[string]int) (map[string]interface{}, error) {
	m := make(map[string]interface{}, len(t.Keys))
	for i, k := range t.Keys {
		v, err := t.Vals[i].GoRepr(opts, used)
		if err != nil {
			return nil, err
		}
		m[k] = v
	}
	return m, nil
}

// homogeneous reports whether all children are primitives of one kind and
// returns a sample value of that kind.
func (t *Tree) homogeneous() (interface{}, bool) {
	if len(t.Vals) == 0 {
		return nil, false
	}
	k := t.Vals[0].K
	if !t.Vals[0].IsPrim() {
		return nil, false
	}
	for _, v := range t.Vals {
		if v.K != k {
			return nil, false
		}
	}
	return t.Vals[0].Prim(), true
}

// ---------------------------------------------------------------------------
// generators

// TreeCfg bounds and biases the tree generator.
type TreeCfg struct {
	Depth    int      // maximal nesting of containers
	Width    int      // maximal number of children
	Keys     []string // key alphabet (overlapping on purpose)
	Strings  []string // extra string payloads
	NoNil    bool
	NoFloat  bool
	Reprs    bool // draw representation choices
	NoEmpty  bool // no empty containers
	PrimOnly bool
}

var DefaultKeys = []string{"a", "b", "c", "d"}

var plainStrings = []string{"s", "t", "u", "", "x y", "true", "12", "1.5", "null"}

// HostileStrings are string payloads with characters that are meta syntax
// somewhere in the library (variable expansion, flag values, paths).
var HostileStrings = []string{"$", "${", "${a}", "$$", "}", "a.b", ".", ",", "a,b", "[1,2]", "{a:1}", ":", "\"q\"", "'q'", "\\", " lead", "trail ", "\t", "é", "日本", "0", "-1", "0x10"}

func genPrim(t *rapid.T, cfg *TreeCfg) *Tree {
	n := 6
	if cfg.NoFloat {
		n = 5
	}
	switch rapid.IntRange(0, n).Draw(t, "prim") {
	case 0:
		return Bool(rapid.Bool().Draw(t, "b"))
	case 1:
		return Uint(uint64(rapid.SampledFrom([]uint64{0, 1, 2, 3, 7, 42, 1 << 31, 1<<63 - 1, 1 << 63, math.MaxUint64}).Draw(t, "u")))
	case 2:
		return Int(rapid.SampledFrom([]int64{-1, -2, -3, -42, math.MinInt64, math.MinInt32}).Draw(t, "i"))
	case 3:
		return Str(rapid.SampledFrom(plainStrings).Draw(t, "s"))
	case 4:
		if len(cfg.Strings) > 0 {
			return Str(rapid.SampledFrom(cfg.Strings).Draw(t, "hs"))
		}
		return Str(rapid.StringMatching(`[a-z]{1,3}`).Draw(t, "s2"))
	case 5:
		return Uint(uint64(rapid.IntRange(0, 9).Draw(t, "small")))
	default:
		return Float(rapid.SampledFrom([]float64{1.5, -2.25, 0.1, 1e100, -1e-100, 3.0000000001, 1e19}).Draw(t, "f"))
	}
}

// GenTree draws a data tree.
func GenTree(t *rapid.T, cfg *TreeCfg, depth int) *Tree {
	if cfg.Keys == nil {
		cfg.Keys = DefaultKeys
	}
	hi := 9
	if depth <= 0 || cfg.PrimOnly {
		hi = 4
	}
	k := rapid.IntRange(0, hi).Draw(t, "kind")
	switch {
	case k == 0:
		if cfg.NoNil {
			return genPrim(t, cfg)
		}
		n := Nil()
		if cfg.Reprs {
			n.R = rapid.IntRange(0, len(typedNils)).Draw(t, "nilrepr") // 0: untyped nil, else a nil pointer of some type
		}
		return n
	case k <= 4:
		return genPrim(t, cfg)
	case k <= 7:
		return GenObj(t, cfg, depth)
	default:
		return GenList(t, cfg, depth)
	}
}

// GenObj draws an object with up to Width distinct keys.
func GenObj(t *rapid.T, cfg *TreeCfg, depth int) *Tree {
	if cfg.Keys == nil {
		cfg.Keys = DefaultKeys
	}
	lo := 0
	if cfg.NoEmpty {
		lo = 1
	}
	n := rapid.IntRange(lo, cfg.Width).Draw(t, "nkeys")
	o := Obj()
	for i := 0; i < n; i++ {
		k := rapid.SampledFrom(cfg.Keys).Draw(t, "key")
		if o.Get(k) != nil {
			continue
		}
		o.Put(k, GenTree(t, cfg, depth-1))
	}
	if cfg.NoEmpty && len(o.Keys) == 0 {
		o.Put(cfg.Keys[0], genPrim(t, cfg))
	}
	if cfg.Reprs {
		o.R = rapid.IntRange(0, 2*NRepr-1).Draw(t, "repr")
	}
	return o
}

// GenList draws a list with up to Width elements.
func GenList(t *rapid.T, cfg *TreeCfg, depth int) *Tree {
	lo := 0
	if cfg.NoEmpty {
		lo = 1
	}
	n := rapid.IntRange(lo, cfg.Width).Draw(t, "len")
	l := List()
	homog := rapid.IntRange(0, 3).Draw(t, "homog") == 0
	var first *Tree
	for i := 0; i < n; i++ {
		var e *Tree
		if homog {
			if first == nil {
				first = genPrim(t, cfg)
				e = first
			} else {
				// same kind as the first element, so that typed slices are reachable
				for try := 0; try < 8; try++ {
					e = genPrim(t, cfg)
					if e.K == first.K {
						break
					}
				}
				if e.K != first.K {
					e = first.Clone()
				}
			}
		} else {
			e = GenTree(t, cfg, depth-1)
		}
		l.Vals = append(l.Vals, e)
	}
	if cfg.Reprs {
		l.R = rapid.IntRange(0, NRepr-1).Draw(t, "repr")
	}
	return l
}
