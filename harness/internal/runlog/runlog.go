// Package runlog is the worker-side half of the verification driver: it turns
// a (generator, run) pair into a sharded rapid search or an exhaustive
// enumeration, journals cases, records failures as replayable JSON files,
// counts what was explored and writes per-shard statistics that the driver
// (cmd/verifctl) merges into the evidence file.
package runlog

import (
	"encoding/binary"
	"encoding/json"
	"flag"
	"fmt"
	"hash/fnv"
	"os"
	"path/filepath"
	"runtime"
	"runtime/debug"
	"sort"
	"strconv"
	"strings"
	"sync"
	"sync/atomic"
	"syscall"
	"testing"
	"time"

	"pgregory.net/rapid"
)

// Ctx is the environment handed to a worker by the driver.
type Ctx struct {
	Prop    string
	Tier    string // quick | thorough
	Seed    uint64
	Shard   int
	NShards int
	OutDir  string
	Replay  string          // path of a case file to replay (replay mode)
	Open    map[string]bool // open known-finding classes (constructed away)
	Only    string          // run only this sub-check (debugging)
	Scale   float64         // multiplies all case counts
}

var (
	ctxOnce sync.Once
	ctx     *Ctx
)

// Env returns the process-wide context, parsed from VERIF_* variables.
func Env() *Ctx {
	ctxOnce.Do(func() {
		c := &Ctx{Tier: "quick", Seed: 1, NShards: 1, Open: map[string]bool{}, Scale: 1}
		c.Prop = os.Getenv("VERIF_PROP")
		if v := os.Getenv("VERIF_TIER"); v == "thorough" {
			c.Tier = v
		}
		if v, err := strconv.ParseUint(os.Getenv("VERIF_SEED"), 10, 64); err == nil {
			c.Seed = v
		}
		if c.Seed == 0 {
			c.Seed = 0x5eed5eed
		}
		if v, err := strconv.Atoi(os.Getenv("VERIF_SHARD")); err == nil {
			c.Shard = v
		}
		if v, err := strconv.Atoi(os.Getenv("VERIF_NSHARDS")); err == nil && v > 0 {
			c.NShards = v
		}
		if v, err := strconv.ParseFloat(os.Getenv("VERIF_SCALE"), 64); err == nil && v > 0 {
			c.Scale = v
		}
		c.OutDir = os.Getenv("VERIF_OUT")
		if c.OutDir == "" {
			c.OutDir = os.TempDir()
		}
		c.Replay = os.Getenv("VERIF_REPLAY")
		c.Only = os.Getenv("VERIF_ONLY")
		for _, f := range strings.Split(os.Getenv("VERIF_OPEN"), ",") {
			if f = strings.TrimSpace(f); f != "" {
				c.Open[f] = true
			}
		}
		ctx = c
		// runaway recursion must die quickly, not fill a gigabyte of stack
		debug.SetMaxStack(64 << 20)
		startWatchdog()
	})
	return ctx
}

// IsOpen reports whether the known finding with the given id is open, i.e.
// its class has to be constructed away by generators.
func IsOpen(id string) bool { return Env().Open[id] }

// Thorough reports whether the thorough tier is running.
func Thorough() bool { return Env().Tier == "thorough" }

// Pick returns q in the quick tier and t in the thorough tier.
func Pick(q, t int) int {
	if Thorough() {
		return t
	}
	return q
}

// ---------------------------------------------------------------------------
// watchdog and journal

var (
	caseStart   atomic.Int64 // unix nanos of the running case, 0 when idle
	caseCPU     atomic.Int64 // CPU time (nanos) the process had used when the running case started
	journalMu   sync.Mutex
	journalFile *os.File
	journalName atomic.Value // string: sub name of the running case
	curCase     atomic.Value // []byte json of the current case (if journaled)
)

func watchdogLimit() time.Duration {
	if v, err := strconv.Atoi(os.Getenv("VERIF_WATCHDOG_S")); err == nil && v > 0 {
		return time.Duration(v) * time.Second
	}
	return 60 * time.Second
}

// cpuTime is the CPU time (user+system) this process has used so far.
func cpuTime() time.Duration {
	var ru syscall.Rusage
	if err := syscall.Getrusage(syscall.RUSAGE_SELF, &ru); err != nil {
		return 0
	}
	return time.Duration(ru.Utime.Nano() + ru.Stime.Nano())
}

func markCaseStart() {
	caseCPU.Store(int64(cpuTime()))
	caseStart.Store(time.Now().UnixNano())
}

func startWatchdog() {
	limit := watchdogLimit()
	go func() {
		for {
			time.Sleep(500 * time.Millisecond)
			st := caseStart.Load()
			if st == 0 {
				continue
			}
			// the limit is CPU time used since the case started (a busy machine slows a case down without it being
			// stuck); a case that is blocked without using the CPU is caught by a wall-clock limit 20 times as long
			if cpuTime()-time.Duration(caseCPU.Load()) > limit || time.Since(time.Unix(0, st)) > 20*limit {
				// the journal already holds the case; mark the hang and leave
				c := Env()
				name, _ := journalName.Load().(string)
				raw, _ := curCase.Load().([]byte)
				writeCaseFile(filepath.Join(c.OutDir, fmt.Sprintf("hang-%d.json", c.Shard)), name, raw,
					fmt.Sprintf("case did not finish within %v of CPU time (or %v of wall time)", limit, 20*limit))
				buf := make([]byte, 1<<16)
				n := runtime.Stack(buf, true)
				os.WriteFile(filepath.Join(c.OutDir, fmt.Sprintf("hang-%d.stack", c.Shard)), buf[:n], 0o644)
				os.Exit(3)
			}
		}
	}()
}

func journal(sub string, raw []byte) {
	c := Env()
	journalMu.Lock()
	defer journalMu.Unlock()
	if journalFile == nil {
		f, err := os.OpenFile(filepath.Join(c.OutDir, fmt.Sprintf("journal-%d.json", c.Shard)), os.O_CREATE|os.O_RDWR|os.O_TRUNC, 0o644)
		if err != nil {
			return
		}
		journalFile = f
	}
	doc := caseDoc(sub, raw, "journal: the worker died or hung while running this case")
	journalFile.Truncate(0)
	journalFile.WriteAt(doc, 0)
}

func journalClear() {
	journalMu.Lock()
	defer journalMu.Unlock()
	if journalFile != nil {
		journalFile.Truncate(0)
	}
}

// CaseFile is the on-disk form of a replayable case.
type CaseFile struct {
	Property string          `json:"property"`
	Sub      string          `json:"sub"`
	Message  string          `json:"message,omitempty"`
	Case     json.RawMessage `json:"case"`
}

func caseDoc(sub string, raw []byte, msg string) []byte {
	if len(msg) > 4000 {
		msg = msg[:4000] + "…"
	}
	doc, _ := json.Marshal(CaseFile{Property: Env().Prop, Sub: sub, Message: msg, Case: raw})
	return doc
}

func writeCaseFile(path, sub string, raw []byte, msg string) {
	tmp := path + ".tmp"
	if err := os.WriteFile(tmp, caseDoc(sub, raw, msg), 0o644); err == nil {
		os.Rename(tmp, path)
	}
}

// ---------------------------------------------------------------------------
// recording

// R is handed to a run function so that it can classify the case.
type R struct {
	nontrivial bool
	discarded  bool
	classes    []string
	excluded   []string
	notes      []string
}

// NonTrivial marks the case as non-trivial by the property's stated rule.
func (r *R) NonTrivial() { r.nontrivial = true }

// NonTrivialIf marks the case as non-trivial if cond holds.
func (r *R) NonTrivialIf(cond bool) {
	if cond {
		r.nontrivial = true
	}
}

// Discard marks the case as outside the property's precondition.
func (r *R) Discard() { r.discarded = true }

// Class adds a label to the class histogram.
func (r *R) Class(label string) { r.classes = append(r.classes, label) }

// ClassIf adds a label if cond holds.
func (r *R) ClassIf(cond bool, label string) {
	if cond {
		r.classes = append(r.classes, label)
	}
}

// Excluded records that part of the case was skipped because of an open
// known finding.
func (r *R) Excluded(id string) { r.excluded = append(r.excluded, id) }

// Stats is what one shard reports for one sub-check.
type Stats struct {
	Sub         string            `json:"sub"`
	Shard       int               `json:"shard"`
	Mode        string            `json:"mode"` // rapid | enum
	Requested   int64             `json:"requested"`
	Evaluations int64             `json:"evaluations"`
	Discarded   int64             `json:"discarded"`
	NonTrivial  int64             `json:"nontrivial"`
	Distinct    int64             `json:"distinct_nontrivial_shard"`
	Exhaustive  bool              `json:"exhaustive"`
	EnumTotal   int64             `json:"enum_total,omitempty"`
	Classes     map[string]int64  `json:"classes,omitempty"`
	Excluded    map[string]int64  `json:"excluded_known,omitempty"`
	Samples     []json.RawMessage `json:"samples,omitempty"`
	Failed      bool              `json:"failed"`
	Done        bool              `json:"done"`
	WallS       float64           `json:"wall_s"`
	Rule        string            `json:"rule,omitempty"`
}

type collector struct {
	st       Stats
	hashes   map[uint64]struct{}
	noHash   bool // enumerations: cases are distinct by construction
	nsamples int
}

func newCollector(sub, mode, rule string) *collector {
	c := Env()
	return &collector{
		st:     Stats{Sub: sub, Shard: c.Shard, Mode: mode, Classes: map[string]int64{}, Excluded: map[string]int64{}, Rule: rule},
		hashes: map[uint64]struct{}{},
	}
}

func hash64(b []byte) uint64 {
	h := fnv.New64a()
	h.Write(b)
	return h.Sum64()
}

func (c *collector) record(raw []byte, r *R) {
	for _, e := range r.excluded {
		c.st.Excluded[e]++
	}
	if r.discarded {
		c.st.Discarded++
		return
	}
	c.st.Evaluations++
	for _, l := range r.classes {
		c.st.Classes[l]++
	}
	if r.nontrivial {
		c.st.NonTrivial++
		if c.noHash {
			c.st.Distinct++
		} else {
			h := hash64(raw)
			if _, ok := c.hashes[h]; !ok {
				c.hashes[h] = struct{}{}
				c.st.Distinct++
			}
		}
		// keep a few samples, spread over the run: 1st, 10th, 100th, ... non-trivial case
		n := c.st.NonTrivial
		if len(c.st.Samples) < 6 && (n == 1 || n == 10 || n == 100 || n == 1000 || n == 10000 || n == 100000) && len(raw) < 6000 {
			c.st.Samples = append(c.st.Samples, append(json.RawMessage(nil), raw...))
		}
	}
}

func (c *collector) flush(start time.Time, done bool) {
	e := Env()
	c.st.WallS = time.Since(start).Seconds()
	c.st.Done = done
	b, _ := json.MarshalIndent(c.st, "", " ")
	os.WriteFile(filepath.Join(e.OutDir, fmt.Sprintf("stats-%s-%d.json", c.st.Sub, e.Shard)), b, 0o644)
	if !c.noHash {
		hs := make([]uint64, 0, len(c.hashes))
		for h := range c.hashes {
			hs = append(hs, h)
		}
		sort.Slice(hs, func(i, j int) bool { return hs[i] < hs[j] })
		buf := make([]byte, 8*len(hs))
		for i, h := range hs {
			binary.LittleEndian.PutUint64(buf[8*i:], h)
		}
		os.WriteFile(filepath.Join(e.OutDir, fmt.Sprintf("hashes-%s-%d.bin", c.st.Sub, e.Shard)), buf, 0o644)
	}
}

// ---------------------------------------------------------------------------
// sub-checks

type replayer func(raw json.RawMessage) error

var registry = map[string]replayer{}

// Sub is one executable check: a generator (or enumeration) of cases of type
// C and a run function that is a pure function of the case and the code
// under test.
type Sub[C any] struct {
	Name    string
	Rule    string // generator + non-trivial rule, for the evidence file
	Gen     func(t *rapid.T) C
	Enum    func(yield func(C) bool)
	Run     func(c C, r *R) error
	Journal bool // write every case to the journal before running it (fatal crashes, hangs)
}

// Register makes the sub-check known to the replay entry point.
func Register[C any](s *Sub[C]) *Sub[C] {
	if _, dup := registry[s.Name]; dup {
		panic("duplicate sub-check " + s.Name)
	}
	registry[s.Name] = func(raw json.RawMessage) error {
		var c C
		if err := json.Unmarshal(raw, &c); err != nil {
			return fmt.Errorf("replay: cannot decode case: %v", err)
		}
		r := &R{}
		return s.exec(c, r)
	}
	return s
}

func (s *Sub[C]) exec(c C, r *R) (err error) {
	defer func() {
		if p := recover(); p != nil {
			err = fmt.Errorf("panic: %v\n%s", p, trimStack(debug.Stack()))
		}
	}()
	return s.Run(c, r)
}

func trimStack(b []byte) string {
	s := string(b)
	if len(s) > 3000 {
		s = s[:3000] + "\n…"
	}
	return s
}

func (s *Sub[C]) skip(t *testing.T) bool {
	e := Env()
	if e.Replay != "" {
		t.Skip("replay mode")
		return true
	}
	if e.Only != "" && !strings.Contains(","+e.Only+",", ","+s.Name+",") {
		t.Skip("not selected")
		return true
	}
	return false
}

func (s *Sub[C]) one(col *collector, c C) error {
	raw, merr := json.Marshal(c)
	if merr != nil {
		return fmt.Errorf("harness: case is not serialisable: %v", merr)
	}
	if s.Journal {
		journal(s.Name, raw)
	}
	curCase.Store(raw)
	journalName.Store(s.Name)
	markCaseStart()
	r := &R{}
	err := s.exec(c, r)
	caseStart.Store(0)
	if err != nil {
		col.st.Failed = true
		e := Env()
		writeCaseFile(filepath.Join(e.OutDir, fmt.Sprintf("fail-%s-%d.json", s.Name, e.Shard)), s.Name, raw, err.Error())
		return err
	}
	col.record(raw, r)
	return nil
}

// Check runs the sub-check as a rapid search. total is the number of cases
// over all shards (quick tier / thorough tier).
func (s *Sub[C]) Check(t *testing.T, quick, thorough int) {
	if s.skip(t) {
		return
	}
	e := Env()
	total := float64(Pick(quick, thorough)) * e.Scale
	n := int(total) / e.NShards
	if n < 1 {
		n = 1
	}
	col := newCollector(s.Name, "rapid", s.Rule)
	col.st.Requested = int64(n)
	seed := e.Seed*1000003 + uint64(e.Shard)*7919 + hash64([]byte(s.Name))%100000
	if seed == 0 {
		seed = 1
	}
	flag.Set("rapid.checks", strconv.Itoa(n))
	flag.Set("rapid.seed", strconv.FormatUint(seed, 10))
	flag.Set("rapid.nofailfile", "true")
	flag.Set("rapid.steps", strconv.Itoa(Pick(30, 50)))
	if v := os.Getenv("VERIF_SHRINKTIME"); v != "" {
		flag.Set("rapid.shrinktime", v)
	} else {
		flag.Set("rapid.shrinktime", "20s")
	}
	start := time.Now()
	defer func() {
		col.flush(start, !t.Failed())
		if s.Journal {
			journalClear()
		}
	}()
	rapid.Check(t, func(rt *rapid.T) {
		c := s.Gen(rt)
		if err := s.one(col, c); err != nil {
			rt.Fatalf("%s: %v", s.Name, err)
		}
	})
}

// Enumerate runs the sub-check over a finite enumeration; shard k handles the
// cases whose index is k modulo the number of shards. If complete is true the
// enumeration covers its space entirely and the sub-run is reported as
// exhaustive.
func (s *Sub[C]) Enumerate(t *testing.T, complete bool) {
	if s.skip(t) {
		return
	}
	e := Env()
	col := newCollector(s.Name, "enum", s.Rule)
	col.noHash = true
	start := time.Now()
	defer func() {
		col.flush(start, !t.Failed())
		if s.Journal {
			journalClear()
		}
	}()
	var idx int64
	failed := false
	s.Enum(func(c C) bool {
		i := idx
		idx++
		if int(i%int64(e.NShards)) != e.Shard {
			return true
		}
		if err := s.one(col, c); err != nil {
			failed = true
			t.Errorf("%s: case %d: %v", s.Name, i, err)
			return false
		}
		return true
	})
	col.st.EnumTotal = idx
	col.st.Requested = idx / int64(e.NShards)
	col.st.Exhaustive = complete && !failed
}

// ReplayMain is the body of every property package's TestReplay: it runs the
// case file named by VERIF_REPLAY directly, bypassing rapid.
func ReplayMain(t *testing.T) {
	e := Env()
	if e.Replay == "" {
		t.Skip("no VERIF_REPLAY")
		return
	}
	b, err := os.ReadFile(e.Replay)
	if err != nil {
		t.Fatalf("replay: %v", err)
	}
	var cf CaseFile
	if err := json.Unmarshal(b, &cf); err != nil {
		t.Fatalf("replay: %v", err)
	}
	f, ok := registry[cf.Sub]
	if !ok {
		t.Fatalf("replay: unknown sub-check %q", cf.Sub)
	}
	journalName.Store(cf.Sub)
	curCase.Store([]byte(cf.Case))
	markCaseStart()
	err = f(cf.Case)
	caseStart.Store(0)
	if err != nil {
		fmt.Printf("REPLAY-FAIL sub=%s: %v\n", cf.Sub, err)
		t.Fatalf("replay failed")
	}
	fmt.Printf("REPLAY-OK sub=%s\n", cf.Sub)
}

// Errf is a shorthand for fmt.Errorf.
func Errf(format string, a ...interface{}) error { return fmt.Errorf(format, a...) }
