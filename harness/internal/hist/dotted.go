package hist

// Dotted keys: with a path separator configured a tree that is merged, attached
// or handed to NewFrom may spell its structure in the keys ("l.02.x": 1 for
// l: [nil, nil, {x: 1}]). FoldKeys re-spells a nested tree that way without
// changing what it denotes (model.FromTreeSep is the inverse).

import (
	"strings"

	"pgregory.net/rapid"

	"verif/harness/internal/gen"
	"verif/harness/internal/model"
)

// FoldKeys returns a copy of tr in which some entries of objects whose value
// is a non-empty container are replaced by one entry per child, the child's
// name or index appended to the key with ".":
//
//   - all children inlined ("l": [a, b] -> "l.0": a, "l.1": b),
//   - or only some of them, the others staying below the plain key
//     ("l": [a], "l.1": b; "k": {p: ..}, "k.q": ..): no setting is defined twice,
//   - recursively ("a.l.1.x"), also inside the elements of lists,
//   - list indices in any integer syntax (respell out of 10 are not the plain
//     decimal spelling),
//   - nil elements of an inlined list are left out half of the time (the later
//     elements then pad the list).
//
// Keys of tr must not contain "." themselves. Empty containers are never
// inlined (they would vanish).
func FoldKeys(t *rapid.T, tr *gen.Tree, respell int, label string) *gen.Tree {
	if tr == nil {
		return nil
	}
	f := folder{t: t, respell: respell, label: label}
	return f.fold(tr)
}

type folder struct {
	t       *rapid.T
	respell int
	label   string
}

func (f *folder) fold(n *gen.Tree) *gen.Tree {
	switch n.K {
	case "list":
		out := &gen.Tree{K: "list", R: n.R}
		for _, e := range n.Vals {
			out.Vals = append(out.Vals, f.fold(e))
		}
		return out
	case "obj":
		out := &gen.Tree{K: "obj", R: n.R}
		for i, k := range n.Keys {
			f.entries(out, k, n.Vals[i])
		}
		// never two entries with one key
		seen := map[string]bool{}
		for _, k := range out.Keys {
			if seen[k] {
				return n.Clone()
			}
			seen[k] = true
		}
		return out
	}
	return n.Clone()
}

func (f *folder) idx(i int) string {
	sp := model.IndexSpellings(i)
	if f.respell > 0 && rapid.IntRange(0, 9).Draw(f.t, f.label+"foldrespell") < f.respell {
		return rapid.SampledFrom(sp[1:]).Draw(f.t, f.label+"foldspelling")
	}
	return sp[0]
}

// entries appends what (k, v) becomes to out.
func (f *folder) entries(out *gen.Tree, k string, v *gen.Tree) {
	mode := 0
	if v.IsCont() && len(v.Vals) > 0 {
		mode = rapid.IntRange(0, 5).Draw(f.t, f.label+"foldmode") // 0-2 kept, 3-4 inlined, 5 some children inlined
	}
	if mode <= 2 {
		out.Keys = append(out.Keys, k)
		out.Vals = append(out.Vals, f.fold(v))
		return
	}
	// which children stay below the plain key
	stay := 0
	if mode == 5 && len(v.Vals) >= 2 {
		stay = rapid.IntRange(1, len(v.Vals)-1).Draw(f.t, f.label+"foldstay")
	}
	if stay > 0 {
		kept := &gen.Tree{K: v.K, R: v.R, Vals: v.Vals[:stay]}
		if v.K == "obj" {
			kept.Keys = v.Keys[:stay]
		}
		out.Keys = append(out.Keys, k)
		out.Vals = append(out.Vals, f.fold(kept))
	}
	last := len(v.Vals) - 1
	for i := stay; i <= last; i++ {
		cv := v.Vals[i]
		if v.K == "obj" {
			f.entries(out, k+"."+v.Keys[i], cv)
			continue
		}
		if cv.K == "nil" && i < last && rapid.Bool().Draw(f.t, f.label+"folddropnil") {
			continue // padding will put it back
		}
		f.entries(out, k+"."+f.idx(i), cv)
	}
}

// replaceSepInKeys rewrites the "." of dotted keys to another separator.
func replaceSepInKeys(tr *gen.Tree, sep string) {
	if tr == nil {
		return
	}
	tr.Walk(nil, func(_ []string, n *gen.Tree) {
		if n.K == "obj" {
			for i, k := range n.Keys {
				n.Keys[i] = strings.ReplaceAll(k, ".", sep)
			}
		}
	})
}
