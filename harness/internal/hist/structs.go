package hist

// Go STRUCT representations of trees (Op.From == FromStruct, Case.InitRepr).
//
// gen.Tree.GoRepr mixes all representations evenly and knows structs only as
// single values. Configurations that come from Go code are mostly structs:
// structs by value and by pointer, typed slices and arrays of structs, slices
// of pointers to structs, maps of structs, nested in each other. StructRepr
// materialises a tree that way wherever the keys allow it (a key must be
// usable as a struct tag name), so that lists of struct elements are frequent:
// below new keys as well as below keys that exist, at the top level of a
// source, in trees given to NewFrom, SetChild and Merge. What a tree denotes
// does not depend on its representation: the model is the one of the plain
// tree.

import (
	"fmt"
	"reflect"
	"regexp"

	ucfg "github.com/elastic/go-ucfg"
	"pgregory.net/rapid"

	"verif/harness/internal/gen"
)

// FromStruct: the value of a Merge / the tree of a SetChild in the struct representations chosen by the R
// fields of its containers (StructRepr)
const FromStruct = "structs"

var tagKey = regexp.MustCompile(`^[A-Za-z_][A-Za-z0-9_]*$`)

var tIface = reflect.TypeOf((*interface{})(nil)).Elem()

// NStructRepr is the number of choices StructRepr distinguishes per container (R modulo NStructRepr; the
// next bit of R asks for concretely typed struct fields).
const NStructRepr = 6

func structable(t *gen.Tree) bool {
	if t.K != "obj" || len(t.Keys) == 0 {
		return false
	}
	for _, k := range t.Keys {
		if !tagKey.MatchString(k) {
			return false
		}
	}
	return true
}

// sameKeys: all children are objects that can be structs and have the same keys in the same order.
func sameKeys(vals []*gen.Tree) bool {
	if len(vals) == 0 {
		return false
	}
	for _, v := range vals {
		if !structable(v) || len(v.Keys) != len(vals[0].Keys) {
			return false
		}
		for i, k := range v.Keys {
			if k != vals[0].Keys[i] {
				return false
			}
		}
	}
	return true
}

func structTypeOf(keys []string, types []reflect.Type) reflect.Type {
	fields := make([]reflect.StructField, len(keys))
	for i, k := range keys {
		ft := tIface
		if types != nil && types[i] != nil {
			ft = types[i]
		}
		fields[i] = reflect.StructField{Name: fmt.Sprintf("F%d", i), Type: ft, Tag: reflect.StructTag(fmt.Sprintf(`config:"%s"`, k))}
	}
	return reflect.StructOf(fields)
}

// structValue builds the struct for an object; typed: fields get the concrete type of their value.
func structValue(t *gen.Tree, typed bool, opts []ucfg.Option, used map[string]int) (reflect.Value, error) {
	vals := make([]interface{}, len(t.Keys))
	var types []reflect.Type
	if typed {
		types = make([]reflect.Type, len(t.Keys))
	}
	for i := range t.Keys {
		v, err := StructRepr(t.Vals[i], opts, used)
		if err != nil {
			return reflect.Value{}, err
		}
		vals[i] = v
		if typed && v != nil {
			types[i] = reflect.TypeOf(v)
		}
	}
	sv := reflect.New(structTypeOf(t.Keys, types)).Elem()
	for i, v := range vals {
		if v != nil {
			sv.Field(i).Set(reflect.ValueOf(v))
		}
	}
	return sv, nil
}

// StructRepr materialises the tree. Choices by R modulo NStructRepr:
//
//	objects: 0 struct value  1 pointer to struct  2 struct value  3 map[string]interface{}
//	         4 map[string]T / map[string]*T of structs (children with the same keys; else 0)  5 pointer to struct
//	lists:   0 []interface{}  1 []T of structs (elements with the same keys; else 0)  2 [N]T of structs (else
//	         [N]interface{})  3 []*T (else 0)  4 pointer to []interface{}  5 []interface{}
//
// (R / NStructRepr) odd: struct fields are typed concretely instead of interface{}. An object whose keys cannot
// be struct tags (or that has none) is a map[string]interface{}.
func StructRepr(t *gen.Tree, opts []ucfg.Option, used map[string]int) (interface{}, error) {
	k, typed := t.R%NStructRepr, (t.R/NStructRepr)%2 == 1
	if k < 0 {
		k = -k
	}
	switch t.K {
	case "obj":
		if k == 4 && sameKeys(t.Vals) && len(t.Keys) > 0 {
			// map of structs (by value, or typed: by pointer)
			st := structTypeOf(t.Vals[0].Keys, nil)
			et := st
			if typed {
				et = reflect.PtrTo(st)
			}
			m := reflect.MakeMapWithSize(reflect.MapOf(reflect.TypeOf(""), et), len(t.Keys))
			for i, key := range t.Keys {
				sv, err := structValue(t.Vals[i], false, opts, used)
				if err != nil {
					return nil, err
				}
				if typed {
					p := reflect.New(st)
					p.Elem().Set(sv)
					sv = p
				}
				m.SetMapIndex(reflect.ValueOf(key), sv)
			}
			used["map of structs"]++
			return m.Interface(), nil
		}
		if k == 3 || !structable(t) {
			m := make(map[string]interface{}, len(t.Keys))
			for i, key := range t.Keys {
				v, err := StructRepr(t.Vals[i], opts, used)
				if err != nil {
					return nil, err
				}
				m[key] = v
			}
			used["map[string]interface{}"]++
			return m, nil
		}
		sv, err := structValue(t, typed, opts, used)
		if err != nil {
			return nil, err
		}
		if k == 1 || k == 5 {
			p := reflect.New(sv.Type())
			p.Elem().Set(sv)
			used["*struct"]++
			return p.Interface(), nil
		}
		used["struct"]++
		return sv.Interface(), nil
	case "list":
		if (k == 1 || k == 2 || k == 3) && sameKeys(t.Vals) {
			st := structTypeOf(t.Vals[0].Keys, nil)
			et := st
			if k == 3 {
				et = reflect.PtrTo(st)
			}
			var l reflect.Value
			if k == 2 {
				l = reflect.New(reflect.ArrayOf(len(t.Vals), et)).Elem()
				used["[N]T of structs"]++
			} else {
				l = reflect.MakeSlice(reflect.SliceOf(et), len(t.Vals), len(t.Vals))
				if k == 3 {
					used["[]*T of structs"]++
				} else {
					used["[]T of structs"]++
				}
			}
			for i, e := range t.Vals {
				sv, err := structValue(e, false, opts, used)
				if err != nil {
					return nil, err
				}
				if k == 3 {
					p := reflect.New(st)
					p.Elem().Set(sv)
					sv = p
				}
				l.Index(i).Set(sv)
			}
			return l.Interface(), nil
		}
		elems := make([]interface{}, len(t.Vals))
		structs := 0
		for i, v := range t.Vals {
			e, err := StructRepr(v, opts, used)
			if err != nil {
				return nil, err
			}
			elems[i] = e
			if e != nil {
				if rk := reflect.TypeOf(e).Kind(); rk == reflect.Struct || (rk == reflect.Ptr && reflect.TypeOf(e).Elem().Kind() == reflect.Struct) {
					structs++
				}
			}
		}
		if structs > 0 {
			used["list with struct elements"]++
		}
		switch k {
		case 2:
			a := reflect.New(reflect.ArrayOf(len(elems), tIface)).Elem()
			for i, e := range elems {
				if e != nil {
					a.Index(i).Set(reflect.ValueOf(e))
				}
			}
			used["[N]interface{}"]++
			return a.Interface(), nil
		case 4:
			used["*[]interface{}"]++
			return &elems, nil
		}
		used["[]interface{}"]++
		return elems, nil
	}
	return t.Prim(), nil
}

// treeValue is what is handed to NewFrom / Merge for a tree: generic data, or its struct representations.
func treeValue(t *gen.Tree, structs bool, opts []ucfg.Option, used map[string]int) (v interface{}, err error) {
	if !structs {
		return t.Go(), nil
	}
	if used == nil {
		used = map[string]int{}
	}
	defer func() {
		if p := recover(); p != nil {
			err = fmt.Errorf("harness: building the struct representation panicked: %v", p)
		}
	}()
	return StructRepr(t, opts, used)
}

// ---------------------------------------------------------------------------
// generator

// AssignStructReprs draws the struct representation of every container (for StructRepr).
func AssignStructReprs(t *rapid.T, tr *gen.Tree) { assignStructReprs(t, tr) }

// assignStructReprs draws the struct representation of every container.
func assignStructReprs(t *rapid.T, tr *gen.Tree) {
	tr.Walk(nil, func(_ []string, n *gen.Tree) {
		if n.K == "obj" || n.K == "list" {
			n.R = rapid.IntRange(0, 2*NStructRepr-1).Draw(t, "structrepr")
		}
	})
}

// genStructList draws what a list of sub-configurations looks like in Go code: 1-3 objects with the same keys
// (primitive values, sometimes a nested object or list).
func genStructList(t *rapid.T, g *GenCfg) *gen.Tree {
	var keys []string
	seen := map[string]bool{}
	for n := rapid.IntRange(1, 3).Draw(t, "slkeys"); n > 0; n-- {
		k := rapid.SampledFrom(g.Trees.Keys).Draw(t, "slkey")
		if !seen[k] {
			seen[k] = true
			keys = append(keys, k)
		}
	}
	l := gen.List()
	for n := rapid.IntRange(1, 3).Draw(t, "sllen"); n > 0; n-- {
		o := gen.Obj()
		for _, k := range keys {
			if rapid.IntRange(0, 5).Draw(t, "slnest") == 0 {
				o.Put(k, gen.GenTree(t, g.Trees, 1))
			} else {
				o.Put(k, gen.GenTree(t, g.Prims, 0))
			}
		}
		l.Vals = append(l.Vals, o)
	}
	return l
}

// structTree draws a tree for the struct representations: a list of objects with the same keys below a key
// where the history keeps its lists (existing key) or below any key of the alphabet (mostly a new key), alone
// or next to other settings; sometimes nested one level deeper.
func structTree(t *rapid.T, g *GenCfg) *gen.Tree {
	l := genStructList(t, g)
	var top *gen.Tree
	switch x := rapid.IntRange(0, 9).Draw(t, "slwhere"); {
	case x < 4 && len(g.ListNames) > 0:
		top = nestUnder(rapid.SampledFrom(g.ListNames).Draw(t, "sllist"), l)
	case x < 8:
		top = gen.GenObj(t, g.Trees, 1)
		top.Put(rapid.SampledFrom(g.Trees.Keys).Draw(t, "slname"), l)
	default:
		in := gen.Obj()
		in.Put(rapid.SampledFrom(g.Trees.Keys).Draw(t, "slname2"), l)
		top = gen.Obj()
		top.Put(rapid.SampledFrom(g.Trees.Keys).Draw(t, "slname1"), in)
	}
	return top
}
