package hist

// Rejected operations: "an operation the model rejects must return an error
// and change nothing". This file holds the kinds of rejected writes that do
// not depend on what the tree holds (hist.go has the walk through a
// primitive):
//
//   - a write whose explicit index is above the maximum index: the default
//     1024, or the value of a MaxIdx option given to the operation itself
//     (Op.MaxIdx; small values make small indices rejected ones),
//   - a write at a negative index of the receiver's own list part,
//   - a Merge whose source holds a value of a type no configuration can hold
//     (Op.Fault).
//
// The generator (boundaryWrite) places such writes at addresses whose
// intermediate nodes do not exist yet (a drawn address extended by segments
// nothing was written to), because that is where a rejected write can leave
// something behind: freshly created containers, list padding. Writes whose
// index EQUALS the maximum are the accepted side of the same boundary.

import (
	"fmt"
	"math"
	"sort"
	"strings"

	ucfg "github.com/elastic/go-ucfg"
	"pgregory.net/rapid"

	"verif/harness/internal/model"
	"verif/harness/internal/uc"
)

func maxIdxOf(op Op) int64 {
	if op.MaxIdx != nil {
		return *op.MaxIdx
	}
	return model.MaxIdx
}

// outOfRange: the reason the model rejects a write whatever the tree holds ("" if it does not).
func outOfRange(op Op) string {
	switch {
	case op.Name == "" && op.Idx < 0:
		return "negative index"
	case op.Idx >= 0 && int64(op.Idx) > maxIdxOf(op):
		return "index above the maximum index"
	}
	return ""
}

func atMax(op Op) bool { return op.Idx >= 0 && int64(op.Idx) == maxIdxOf(op) }

// segAbove: a segment of the name that is a list index by default lies above max.
func segAbove(name, sep string, max int64) bool {
	if name == "" {
		return false
	}
	parts := []string{name}
	if sep != "" {
		parts = strings.Split(name, sep)
	}
	for _, p := range parts {
		if sg := model.ClassifySeg(p); sg.IsIdx && int64(sg.Idx) > max {
			return true
		}
	}
	return false
}

// missingBelow: the walk to the parent of the addressed setting meets a node
// that does not exist (or holds nil): a write there has to create nodes.
func missingBelow(n *model.Node, segs []model.Seg) bool {
	if len(segs) < 2 {
		return false
	}
	p, err := n.Lookup(segs[:len(segs)-1])
	return err == model.ErrMissing || (err == nil && p.Kind == "nil")
}

// rejectedWrite executes a Set or SetChild that the model rejects because of
// its index alone. The model is not touched.
func (s *State) rejectedWrite(op Op, h Handle, segs []model.Seg, opts []ucfg.Option, what, why string, info Info) (Info, error) {
	var err error
	switch op.Kind {
	case Set:
		if op.Val == nil || !op.Val.IsPrim() {
			info.Skipped = "set without a primitive"
			return info, nil
		}
		err = setPrim(h.C, op.Name, op.Idx, op.Val, opts)
	case SetChild:
		if op.Val == nil || !op.Val.IsCont() {
			info.Skipped = "setchild without a tree"
			return info, nil
		}
		var fresh *ucfg.Config
		if e := uc.Safe("NewFrom", func() error {
			var e error
			fresh, e = ucfg.NewFrom(op.Val.Go(), s.Opts...)
			return e
		}); e != nil {
			return info, fmt.Errorf("%s: NewFrom(tree) failed: %v", what, e)
		}
		err = uc.Safe("SetChild", func() error { return h.C.SetChild(op.Name, op.Idx, fresh, opts...) })
	}
	if err == nil {
		return info, fmt.Errorf("%s: the model rejects the operation (%s: maximum index %d) but the library reported no error", what, why, maxIdxOf(op))
	}
	if strings.Contains(err.Error(), "panicked") {
		return info, fmt.Errorf("%s: %v", what, err)
	}
	info.Rejected, info.RejectWhy = true, why
	// would the write have had to create nodes on the way? (a walk through a primitive is rejected for that reason alone)
	info.MissingBelow = missingBelow(h.M, segs)
	return info, nil
}

// unsupported values: no configuration can hold them, Merge must fail
func unsupported(k int) interface{} {
	switch k % 3 {
	case 0:
		return make(chan int)
	case 1:
		return func() {}
	}
	return complex(1, 2)
}

// injectFault puts an unsupported value into generic data: into the
// container number fault-1 (modulo the number of containers, in a
// deterministic order): under a new key of a map, in place of the last
// element of a list (as its only element if the list is empty).
func injectFault(src interface{}, fault int) interface{} {
	type place struct {
		m    map[string]interface{}
		l    []interface{}
		set  func(interface{})
		list bool
	}
	var places []place
	var rec func(v interface{}, set func(interface{}))
	rec = func(v interface{}, set func(interface{})) {
		switch x := v.(type) {
		case map[string]interface{}:
			places = append(places, place{m: x})
			keys := make([]string, 0, len(x))
			for k := range x {
				keys = append(keys, k)
			}
			sort.Strings(keys)
			for _, k := range keys {
				k := k
				rec(x[k], func(n interface{}) { x[k] = n })
			}
		case []interface{}:
			places = append(places, place{l: x, set: set, list: true})
			for i := range x {
				i := i
				rec(x[i], func(n interface{}) { x[i] = n })
			}
		}
	}
	out := src
	rec(src, func(n interface{}) { out = n })
	if len(places) == 0 {
		return map[string]interface{}{"zz": unsupported(fault)}
	}
	p := places[(fault-1)%len(places)]
	bad := unsupported((fault - 1) / len(places))
	switch {
	case !p.list:
		p.m["zz"] = bad
	case len(p.l) == 0:
		p.set([]interface{}{bad})
	default:
		p.l[len(p.l)-1] = bad
	}
	return out
}

// rejectedMerge executes a Merge whose source holds a value of unsupported
// type. The model is not touched.
func (s *State) rejectedMerge(op Op, h Handle, src interface{}, what string, info Info) (Info, error) {
	src = injectFault(src, op.Fault)
	opts := append(append([]ucfg.Option{}, s.Opts...), uc.PolicyOpts(op.Policy)...)
	err := uc.Safe("Merge", func() error { return h.C.Merge(src, opts...) })
	if err == nil {
		return info, fmt.Errorf("%s: the source holds a value of a type no configuration can hold (a channel, a function or a complex number) but Merge reported no error", what)
	}
	if strings.Contains(err.Error(), "panicked") {
		return info, fmt.Errorf("%s: %v", what, err)
	}
	info.Rejected, info.RejectWhy = true, "merge source with a value of unsupported type"
	return info, nil
}

// ---------------------------------------------------------------------------
// generator

// freshSegs: segments nothing of the address pools writes to; "5" and "0" make the missing node a list
var freshSegs = []string{"q", "r", "5", "q", "deep", "0", "z", "2"}

var smallMax = []int64{2, 0, 3, 1, 4, 7, 9, 16, 64, 1023}

var farIdx = []int{5000, 1025, 1 << 20, math.MaxInt32, math.MaxInt64, 1026, 2048}

// boundaryWrite turns a drawn Set / SetChild into a write at the boundary of
// the index range: mostly just above the maximum index (rejected), sometimes
// far above, sometimes exactly at a small maximum (accepted), sometimes at a
// negative index of the receiver's own list part. The maximum is the default
// or a MaxIdx option of the operation.
func boundaryWrite(t *rapid.T, g *GenCfg, op *Op) {
	if op.Name != "" && rapid.IntRange(0, 9).Draw(t, "extend") < 6 {
		for k := rapid.IntRange(1, 2).Draw(t, "extendby"); k > 0; k-- {
			op.Name += "." + rapid.SampledFrom(freshSegs).Draw(t, "freshseg")
		}
	}
	max := int64(model.MaxIdx)
	if rapid.IntRange(0, 9).Draw(t, "withmaxidx") < 6 {
		m := rapid.SampledFrom(smallMax).Draw(t, "maxidx")
		op.MaxIdx, max = &m, m
	}
	switch x := rapid.IntRange(0, 9).Draw(t, "boundary"); {
	case x < 5:
		op.Idx = int(max) + 1
	case x == 5:
		op.Idx = int(max) + rapid.IntRange(2, 10).Draw(t, "above")
	case x == 6:
		op.Idx = rapid.SampledFrom(farIdx).Draw(t, "far")
	case x < 9:
		if max <= 16 {
			op.Idx = int(max)
		} else {
			op.Idx = int(max) + 1
		}
	default:
		op.Name, op.Idx = "", rapid.SampledFrom([]int{-1, -2, math.MinInt64, -1025}).Draw(t, "negative")
	}
}
