// Package hist is the operation-history engine shared by properties C12 and
// C15: a history is DATA (a list of low-level operations with their
// addresses, values and handle indices); Apply executes one operation against
// a real config and against the path/tree model (model (iii)) in lock-step
// and reports when the two disagree about the outcome. What is checked after
// each step is up to the property package.
package hist

import (
	"fmt"
	"strconv"
	"strings"

	ucfg "github.com/elastic/go-ucfg"
	"pgregory.net/rapid"

	"verif/harness/internal/gen"
	"verif/harness/internal/model"
	"verif/harness/internal/uc"
)

// Addr is a (name, idx) address as the low-level API takes it. Idx == -1
// means "no index"; an empty name addresses the list part of the receiver.
type Addr struct {
	Name string `json:"name"`
	Idx  int    `json:"idx"`
}

func (a Addr) String() string { return fmt.Sprintf("(%q,%d)", a.Name, a.Idx) }

// Operation kinds.
const (
	Set      = "set"      // SetBool/SetInt/SetUint/SetFloat/SetString, chosen by the kind of Val
	SetChild = "setchild" // SetChild of a fresh config built from the tree Val; the new child is pooled via Child
	Remove   = "remove"
	Merge    = "merge" // Merge of the tree Val under Policy
	Child    = "child" // Child: the handle is added to the pool
	// Reattach: SetChild of an existing child (pooled handle Src) at a new place,
	// after removing it from where it is attached now (so that a move and a copy
	// reading of SetChild agree on the outcome).
	Reattach = "reattach"
)

// Op is one step of a history.
type Op struct {
	Kind   string       `json:"kind"`
	H      int          `json:"h,omitempty"` // receiver: 0 = the root, k > 0 = pooled handle (k-1) modulo pool size
	Name   string       `json:"name"`
	Idx    int          `json:"idx"`
	Val    *gen.Tree    `json:"val,omitempty"`
	Policy model.Policy `json:"policy,omitempty"`
	Src    int          `json:"src,omitempty"` // reattach: pooled handle Src modulo pool size
}

func (o Op) Addr() Addr { return Addr{o.Name, o.Idx} }

func (o Op) String() string {
	s := fmt.Sprintf("%s h=%d (%q,%d)", o.Kind, o.H, o.Name, o.Idx)
	if o.Kind == Merge {
		s += " " + o.Policy.String()
	}
	if o.Kind == Reattach {
		s += fmt.Sprintf(" src=%d", o.Src)
	}
	return s
}

// Case is a whole history.
type Case struct {
	PathSep bool      `json:"pathsep"`
	Init    *gen.Tree `json:"init,omitempty"`
	Ops     []Op      `json:"ops"`
	Reads   []Addr    `json:"reads,omitempty"` // addresses of the point reads made after every step
	// ExclD14 counts the re-attachment operations the generator constructed away
	// because finding D14 is open.
	ExclD14 int `json:"excl_d14,omitempty"`
}

// Handle pairs a config with the model node it is a view of.
type Handle struct {
	C  *ucfg.Config
	M  *model.Node
	ID int // 0 = root, else sequence number of the handle
}

// State is the lock-step state of a history.
type State struct {
	Sep     string
	Opts    []ucfg.Option
	Root    Handle
	Pool    []Handle
	PoolCap int
	NoMixed bool // skip operations that would give a node named keys and list elements at once (C15)

	ring    int
	seq     int
	written map[*model.Node]bool
}

// Info describes what one Apply did.
type Info struct {
	Skipped   string // non-empty: the operation was not applicable and nothing happened
	ViaHandle bool   // executed through a pooled handle
	Detached  bool   // ... whose node is not reachable from the root any more
	Rejected  bool   // the model rejects the operation: an error was demanded
	Wrote     bool   // a mutation took place
	Overlap   bool   // the mutation removed or overwrote something an earlier write of the history had put there
	Padded    bool   // a list was padded with nils
	Shifted   bool   // a list removal shifted later elements down
	Retired   int    // handles retired (merge reached their subtree / re-attachment)
	Pooled    bool   // a handle was added to the pool
	Receiver  Handle
}

// New builds the initial state of a case. The second result is false if the
// case is outside the precondition (NoMixed and the initial tree is mixed).
func New(c Case, noMixed bool) (*State, bool, error) {
	s := &State{PoolCap: 6, NoMixed: noMixed, written: map[*model.Node]bool{}}
	if c.PathSep {
		s.Sep = "."
		s.Opts = []ucfg.Option{ucfg.PathSep(".")}
	}
	m := model.NewCont()
	cfg := ucfg.New()
	if c.Init != nil {
		if !c.Init.IsCont() {
			return nil, false, nil
		}
		model.MergeCont(model.Default, nil, m, model.FromTree(c.Init))
		if noMixed && m.Mixed() {
			return nil, false, nil
		}
		var err error
		err = uc.Safe("NewFrom", func() error {
			var e error
			cfg, e = ucfg.NewFrom(c.Init.Go(), s.Opts...)
			return e
		})
		if err != nil {
			return nil, true, fmt.Errorf("NewFrom(initial tree) failed: %v", err)
		}
	}
	s.Root = Handle{C: cfg, M: m}
	return s, true, nil
}

// Resolve returns the receiver an H value denotes.
func (s *State) Resolve(h int) (Handle, bool) {
	if h <= 0 {
		return s.Root, true
	}
	if len(s.Pool) == 0 {
		return Handle{}, false
	}
	return s.Pool[(h-1)%len(s.Pool)], true
}

func (s *State) pool(h Handle) {
	s.seq++
	h.ID = s.seq
	if len(s.Pool) < s.PoolCap {
		s.Pool = append(s.Pool, h)
		return
	}
	s.Pool[s.ring%len(s.Pool)] = h
	s.ring++
}

func (s *State) retire(pred func(Handle) bool) int {
	n := 0
	kept := s.Pool[:0]
	for _, h := range s.Pool {
		if pred(h) {
			n++
			continue
		}
		kept = append(kept, h)
	}
	s.Pool = kept
	return n
}

func (s *State) containsWritten(n *model.Node) bool {
	if n == nil {
		return false
	}
	found := false
	n.Walk(nil, func(_ []model.Seg, m *model.Node) {
		if s.written[m] {
			found = true
		}
	})
	return found
}

// ValidAddr: addresses outside the domain of these properties (negative
// indices, no name and no index) are C07's.
func ValidAddr(name string, idx int) bool {
	return idx >= -1 && !(name == "" && idx < 0)
}

func treeModel(t *gen.Tree) *model.Node {
	m := model.NewCont()
	model.MergeCont(model.Default, nil, m, model.FromTree(t))
	return m
}

func setPrim(c *ucfg.Config, name string, idx int, v *gen.Tree, opts []ucfg.Option) error {
	return uc.Safe("Set", func() error {
		switch v.K {
		case "bool":
			return c.SetBool(name, idx, v.B, opts...)
		case "int":
			return c.SetInt(name, idx, v.I, opts...)
		case "uint":
			return c.SetUint(name, idx, v.U, opts...)
		case "float":
			return c.SetFloat(name, idx, v.FloatVal(), opts...)
		case "str":
			return c.SetString(name, idx, v.S, opts...)
		}
		return fmt.Errorf("harness: not a primitive: %s", v.K)
	})
}

func padded(n *model.Node, segs []model.Seg) bool {
	// does the write leave a gap that has to be filled with nils?
	cur := n
	for _, sg := range segs {
		if cur == nil { // built from scratch from here on
			if sg.IsIdx && sg.Idx > 0 {
				return true
			}
			continue
		}
		if cur.Kind != "cont" {
			return false
		}
		if sg.IsIdx && sg.Idx > len(cur.A) {
			return true
		}
		nx, err := cur.Step(sg)
		if err != nil || nx == nil || nx.Kind == "nil" {
			cur = nil
		} else {
			cur = nx
		}
	}
	return false
}

func mismatch(what string, op Op, err, merr error) error {
	if merr != nil {
		return fmt.Errorf("%s: the model rejects the operation (%v) but the library reported no error", what, merr)
	}
	return fmt.Errorf("%s: the library failed (%v) but the model accepts the operation", what, err)
}

// Apply executes one operation on the library and the model. A non-nil error
// is a disagreement about the outcome (success vs. error, or the result of
// Remove): a violation of the property.
func (s *State) Apply(op Op) (Info, error) {
	var info Info
	h, ok := s.Resolve(op.H)
	if !ok {
		info.Skipped = "no pooled handle"
		return info, nil
	}
	info.Receiver = h
	if op.Kind != Merge && !ValidAddr(op.Name, op.Idx) {
		info.Skipped = "address outside the domain"
		return info, nil
	}
	if op.H > 0 {
		info.ViaHandle = true
		info.Detached = !s.Root.M.Contains(h.M)
	}
	what := fmt.Sprintf("%s on handle #%d", op, h.ID)
	segs := model.ParseAddr(op.Name, op.Idx, s.Sep)
	switch op.Kind {
	case Set:
		if op.Val == nil || !op.Val.IsPrim() {
			info.Skipped = "set without a primitive"
			return info, nil
		}
		if s.NoMixed {
			cp := h.M.Copy()
			if _, err := cp.SetPath(segs, model.NewPrim(op.Val.Prim())); err == nil && cp.Mixed() {
				info.Skipped = "would create a mixed node"
				return info, nil
			}
		}
		pad := padded(h.M, segs)
		v := model.NewPrim(op.Val.Prim())
		old, merr := h.M.SetPath(segs, v)
		err := setPrim(h.C, op.Name, op.Idx, op.Val, s.Opts)
		if (err == nil) != (merr == nil) {
			return info, mismatch(what, op, err, merr)
		}
		if merr != nil {
			info.Rejected = true
			return info, nil
		}
		info.Wrote, info.Padded = true, pad
		info.Overlap = s.containsWritten(old)
		s.written[v] = true

	case SetChild:
		if op.Val == nil || !op.Val.IsCont() {
			info.Skipped = "setchild without a tree"
			return info, nil
		}
		m := treeModel(op.Val)
		if s.NoMixed {
			cp := h.M.Copy()
			if _, err := cp.SetPath(segs, m.Copy()); err == nil && cp.Mixed() {
				info.Skipped = "would create a mixed node"
				return info, nil
			}
		}
		var fresh *ucfg.Config
		if err := uc.Safe("NewFrom", func() error {
			var e error
			fresh, e = ucfg.NewFrom(op.Val.Go(), s.Opts...)
			return e
		}); err != nil {
			return info, fmt.Errorf("%s: NewFrom(tree) failed: %v", what, err)
		}
		pad := padded(h.M, segs)
		old, merr := h.M.SetPath(segs, m)
		err := uc.Safe("SetChild", func() error { return h.C.SetChild(op.Name, op.Idx, fresh, s.Opts...) })
		if (err == nil) != (merr == nil) {
			return info, mismatch(what, op, err, merr)
		}
		if merr != nil {
			info.Rejected = true
			return info, nil
		}
		info.Wrote, info.Padded = true, pad
		info.Overlap = s.containsWritten(old)
		s.written[m] = true
		// the new child, obtained the way a user would obtain it, joins the pool
		var ch *ucfg.Config
		if err := uc.Safe("Child", func() error {
			var e error
			ch, e = h.C.Child(op.Name, op.Idx, s.Opts...)
			return e
		}); err != nil || ch == nil {
			return info, fmt.Errorf("%s: Child at the address just given to SetChild failed: %v", what, err)
		}
		s.pool(Handle{C: ch, M: m})
		info.Pooled = true

	case Remove:
		shift := false
		if last := segs[len(segs)-1]; last.IsIdx {
			if par, err := h.M.Lookup(segs[:len(segs)-1]); err == nil && par.Kind == "cont" && last.Idx < len(par.A)-1 {
				shift = true
			}
		}
		removed, old, merr := h.M.RemovePath(segs)
		var got bool
		err := uc.Safe("Remove", func() error {
			var e error
			got, e = h.C.Remove(op.Name, op.Idx, s.Opts...)
			return e
		})
		if (err == nil) != (merr == nil) {
			return info, mismatch(what, op, err, merr)
		}
		if merr != nil {
			info.Rejected = true
			return info, nil
		}
		if got != removed {
			return info, fmt.Errorf("%s: Remove returned %v, the model says %v", what, got, removed)
		}
		if removed {
			info.Wrote, info.Shifted = true, shift
			info.Overlap = s.containsWritten(old)
		}

	case Merge:
		if op.Val == nil || !op.Val.IsCont() {
			info.Skipped = "merge without a tree"
			return info, nil
		}
		from := model.FromTree(op.Val)
		if s.NoMixed {
			cp := h.M.Copy()
			model.MergeCont(op.Policy, nil, cp, from)
			if cp.Mixed() {
				info.Skipped = "would create a mixed node"
				return info, nil
			}
		}
		// Merge copies the subtrees it reaches: handles into them are retired (reading decision 9)
		var reached []*model.Node
		if len(from.D) > 0 {
			for _, k := range h.M.SortedKeys() {
				if _, hit := from.D[k]; hit || op.Policy == model.Replace {
					reached = append(reached, h.M.D[k])
				}
			}
		}
		if len(from.A) > 0 {
			reached = append(reached, h.M.A...)
		}
		info.Retired = s.retire(func(p Handle) bool {
			for _, r := range reached {
				if r.Contains(p.M) {
					return true
				}
			}
			return false
		})
		model.MergeCont(op.Policy, nil, h.M, from)
		opts := append(append([]ucfg.Option{}, s.Opts...), uc.PolicyOpts(op.Policy)...)
		if err := uc.Safe("Merge", func() error { return h.C.Merge(op.Val.Go(), opts...) }); err != nil {
			return info, fmt.Errorf("%s: Merge failed: %v", what, err)
		}
		info.Wrote = true

	case Child:
		n, merr := h.M.Lookup(segs)
		var ch *ucfg.Config
		err := uc.Safe("Child", func() error {
			var e error
			ch, e = h.C.Child(op.Name, op.Idx, s.Opts...)
			return e
		})
		if merr == nil && n.Kind == "nil" {
			// a nil setting: the statement does not say whether it is a child; nothing is pooled
			info.Skipped = "child of a nil setting"
			return info, nil
		}
		if merr == nil && n.Kind == "prim" {
			merr = model.ErrExpectedObject
		}
		if (err == nil) != (merr == nil) {
			return info, mismatch(what, op, err, merr)
		}
		if merr != nil {
			info.Rejected = true
			return info, nil
		}
		if ch == nil {
			return info, fmt.Errorf("%s: Child returned nil without an error", what)
		}
		s.pool(Handle{C: ch, M: n})
		info.Pooled = true

	case Reattach:
		if len(s.Pool) == 0 {
			info.Skipped = "no pooled handle"
			return info, nil
		}
		src := s.Pool[((op.Src%len(s.Pool))+len(s.Pool))%len(s.Pool)]
		if src.M.Contains(h.M) {
			info.Skipped = "would create a cycle"
			return info, nil
		}
		// 1. detach the child from where it is attached now (through the root)
		if p, found := s.Root.M.PathTo(src.M); found && len(p) > 0 {
			par, err := s.Navigate(s.Root, p[:len(p)-1])
			if err != nil {
				return info, fmt.Errorf("%s: navigating to the parent of the child failed: %v", what, err)
			}
			last := p[len(p)-1]
			name, idx := last.Name, -1
			if last.IsIdx {
				name, idx = "", last.Idx
			}
			rm, _, merr := par.M.RemovePath([]model.Seg{last})
			var got bool
			err = uc.Safe("Remove", func() error {
				var e error
				got, e = par.C.Remove(name, idx, s.Opts...)
				return e
			})
			if err != nil || merr != nil || !got || !rm {
				return info, fmt.Errorf("%s: removing the child at %s before re-attaching it: library %v,%v model %v,%v", what, model.JoinSegs(p, "."), got, err, rm, merr)
			}
			if last.IsIdx {
				info.Shifted = true
			}
			info.Wrote = true
		}
		// 2. attach it at the new place
		if s.NoMixed {
			cp := h.M.Copy()
			if _, err := cp.SetPath(segs, src.M.Copy()); err == nil && cp.Mixed() {
				info.Skipped = "would create a mixed node"
				info.Retired = s.retire(func(Handle) bool { return true })
				return info, nil
			}
		}
		_, merr := h.M.SetPath(segs, src.M)
		err := uc.Safe("SetChild", func() error { return h.C.SetChild(op.Name, op.Idx, src.C, s.Opts...) })
		// whether the old handle is a view of the new place (move) or not (copy) is open: retire all handles
		info.Retired = s.retire(func(Handle) bool { return true })
		if (err == nil) != (merr == nil) {
			return info, mismatch(what, op, err, merr)
		}
		if merr != nil {
			info.Rejected = true
			return info, nil
		}
		info.Wrote = true

	default:
		info.Skipped = "unknown kind"
	}
	return info, nil
}

// SegAddr is the (name, idx) address of a single segment.
func SegAddr(sg model.Seg) (string, int) {
	if sg.IsIdx {
		return "", sg.Idx
	}
	return sg.Name, -1
}

// Navigate walks from a handle along segments with one Child call per
// segment, following the model in parallel.
func (s *State) Navigate(from Handle, segs []model.Seg) (Handle, error) {
	cur := from
	for i, sg := range segs {
		name, idx := SegAddr(sg)
		var ch *ucfg.Config
		if err := uc.Safe("Child", func() error {
			var e error
			ch, e = cur.C.Child(name, idx, s.Opts...)
			return e
		}); err != nil {
			return Handle{}, fmt.Errorf("Child(%q,%d) at %q: %v", name, idx, model.JoinSegs(segs[:i], "."), err)
		}
		m, err := cur.M.Step(sg)
		if err != nil || m == nil {
			return Handle{}, fmt.Errorf("harness: model has no node at %q", model.JoinSegs(segs[:i+1], "."))
		}
		cur = Handle{C: ch, M: m}
	}
	return cur, nil
}

// Positions maps every non-nil node below root (by pointer) to its path.
func Positions(root *model.Node) map[*model.Node]string {
	out := map[*model.Node]string{}
	root.Walk(nil, func(p []model.Seg, n *model.Node) {
		if n.Kind != "nil" {
			out[n] = model.JoinSegs(p, "\x00")
		}
	})
	return out
}

// Moved reports whether a node present before and after has changed its path.
func Moved(before, after map[*model.Node]string) bool {
	for n, p := range before {
		if q, ok := after[n]; ok && q != p {
			return true
		}
	}
	return false
}

// ---------------------------------------------------------------------------
// generator

// GenCfg parametrises the history generator.
type GenCfg struct {
	Names    []string // overlapping pool of names and dotted paths ("" = the receiver's list part)
	MaxIdx   int      // explicit indices are drawn from 0..MaxIdx (and -1 = none, weighted)
	MinOps   int
	MaxOps   int
	Kinds    []string // operation kinds; repeat a kind to weight it
	Trees    *gen.TreeCfg
	Prims    *gen.TreeCfg
	Policies []model.Policy
	NReads   int
	// ListNames: names under which half of the merged trees carry a list, so that list merges meet existing lists
	ListNames []string
	// InitLists (out of 10): chance that the initial tree carries lists of 2-4 elements under the ListNames
	InitLists int
	// MoveBias (out of 10): chance that a removal addresses an element of one of the ListNames directly
	MoveBias int
	// D14Open: re-attachments are constructed away (counted in Case.ExclD14)
	D14Open bool
}

// GenAddr draws an address from the pool.
func GenAddr(t *rapid.T, g *GenCfg, label string) Addr {
	name := rapid.SampledFrom(g.Names).Draw(t, label+"name")
	idx := -1
	if name == "" || rapid.IntRange(0, 9).Draw(t, label+"withidx") < 4 {
		idx = rapid.IntRange(0, g.MaxIdx).Draw(t, label+"idx")
	}
	return Addr{name, idx}
}

// related draws an address related to one that an earlier operation wrote
// to: the same one, a prefix of it (the containers on the way), or a
// neighbouring list index. The generator does not know the state (it never
// runs the model), it only makes hits likely.
func related(t *rapid.T, g *GenCfg, used []Addr, label string, wantContainer bool) Addr {
	a := rapid.SampledFrom(used).Draw(t, label+"used")
	parts := strings.Split(a.Name, ".")
	mode := rapid.IntRange(0, 5).Draw(t, label+"mode")
	if wantContainer && mode < 2 {
		mode = 2 + mode
	}
	switch mode {
	case 0, 1: // the same address
		return a
	case 2, 3: // a prefix
		if a.Idx >= 0 && a.Name != "" && rapid.Bool().Draw(t, label+"list") {
			return Addr{a.Name, -1}
		}
		if len(parts) > 1 {
			k := rapid.IntRange(1, len(parts)-1).Draw(t, label+"cut")
			return Addr{strings.Join(parts[:k], "."), -1}
		}
		if a.Idx >= 0 && a.Name != "" {
			return Addr{a.Name, -1}
		}
		return a
	default: // a neighbouring index
		if a.Idx >= 0 {
			return Addr{a.Name, rapid.IntRange(0, g.MaxIdx).Draw(t, label+"nidx")}
		}
		if last := parts[len(parts)-1]; len(last) == 1 && last[0] >= '0' && last[0] <= '9' {
			parts[len(parts)-1] = strconv.Itoa(rapid.IntRange(0, g.MaxIdx).Draw(t, label+"nseg"))
			return Addr{strings.Join(parts, "."), -1}
		}
		return Addr{a.Name, rapid.IntRange(0, g.MaxIdx).Draw(t, label+"nidx2")}
	}
}

func genTop(t *rapid.T, cfg *gen.TreeCfg, depth int) *gen.Tree {
	if rapid.IntRange(0, 4).Draw(t, "toplist") == 0 {
		return gen.GenList(t, cfg, depth)
	}
	return gen.GenObj(t, cfg, depth)
}

func nestUnder(name string, v *gen.Tree) *gen.Tree {
	top := gen.Obj()
	cur := top
	parts := strings.Split(name, ".")
	for j, p := range parts {
		if j == len(parts)-1 {
			cur.Put(p, v)
		} else {
			nx := gen.Obj()
			cur.Put(p, nx)
			cur = nx
		}
	}
	return top
}

// Gen draws a history.
func Gen(t *rapid.T, g *GenCfg) Case {
	c := Case{PathSep: rapid.IntRange(0, 3).Draw(t, "pathsep") != 0}
	var used []Addr    // addresses written through the root
	var usedVia []Addr // addresses written through handles (relative to some handle)
	if g.InitLists > 0 && rapid.IntRange(0, 9).Draw(t, "initlists") < g.InitLists {
		// lists of 2-4 elements (primitives and small containers) where the history keeps its lists
		c.Init = gen.Obj()
		seen := map[string]bool{}
		for _, name := range g.ListNames {
			if seen[name] || rapid.IntRange(0, 3).Draw(t, "skiplist") == 0 {
				continue
			}
			seen[name] = true
			l := gen.List()
			for k := rapid.IntRange(2, 4).Draw(t, "initlen"); k > 0; k-- {
				l.Vals = append(l.Vals, gen.GenTree(t, g.Trees, 1))
			}
			// nestUnder builds a fresh chain; merge it into what is there
			parts := strings.Split(name, ".")
			cur := c.Init
			for j, p := range parts {
				if j == len(parts)-1 {
					cur.Put(p, l)
				} else {
					nx := cur.Get(p)
					if nx == nil || nx.K != "obj" {
						nx = gen.Obj()
						cur.Put(p, nx)
					}
					cur = nx
				}
			}
			used = append(used, Addr{name, 0}, Addr{name, 1})
		}
	} else if rapid.Bool().Draw(t, "withinit") {
		c.Init = gen.GenObj(t, g.Trees, g.Trees.Depth)
		if len(g.ListNames) > 0 && rapid.Bool().Draw(t, "initlist") {
			c.Init.Put(strings.Split(g.ListNames[0], ".")[0], gen.GenList(t, g.Trees, 1))
		}
	}
	pooling := 0 // operations so far that may have put a handle into the pool
	n := rapid.IntRange(g.MinOps, g.MaxOps).Draw(t, "nops")
	for i := 0; i < n; i++ {
		kind := rapid.SampledFrom(g.Kinds).Draw(t, "kind")
		if i == 0 && (kind == Child || kind == Remove) {
			kind = Set
		}
		if kind == Reattach && g.D14Open {
			c.ExclD14++
			kind = SetChild
		}
		op := Op{Kind: kind, Idx: -1}
		if pooling > 0 && rapid.IntRange(0, 9).Draw(t, "viahandle") < 4 {
			op.H = rapid.IntRange(1, 6).Draw(t, "h")
		}
		if kind == Child || kind == SetChild {
			pooling++
		}
		pool := &used
		if op.H > 0 {
			pool = &usedVia
		}
		if kind != Merge {
			var a Addr
			switch {
			case kind == Remove && op.H == 0 && len(g.ListNames) > 0 && rapid.IntRange(0, 9).Draw(t, "movebias") < g.MoveBias:
				a = Addr{rapid.SampledFrom(g.ListNames).Draw(t, "rmlist"), rapid.IntRange(0, 2).Draw(t, "rmidx")}
				if c.PathSep && rapid.Bool().Draw(t, "rmdotted") {
					a = Addr{a.Name + "." + strconv.Itoa(a.Idx), -1}
				}
			case (kind == Set || kind == SetChild || kind == Reattach) && (len(*pool) == 0 || rapid.IntRange(0, 9).Draw(t, "fresh") < 6):
				a = GenAddr(t, g, "")
			case len(*pool) > 0 && rapid.IntRange(0, 9).Draw(t, "rel") < 7:
				a = related(t, g, *pool, "", kind == Child)
			default:
				a = GenAddr(t, g, "")
			}
			op.Name, op.Idx = a.Name, a.Idx
			if kind == Set || kind == SetChild || kind == Reattach {
				*pool = append(*pool, a)
			}
		}
		switch kind {
		case Set:
			op.Val = gen.GenTree(t, g.Prims, 0)
		case SetChild:
			op.Val = genTop(t, g.Trees, g.Trees.Depth-1)
		case Merge:
			op.Val = genTop(t, g.Trees, g.Trees.Depth)
			if len(g.ListNames) > 0 && rapid.IntRange(0, 9).Draw(t, "listy") < 5 {
				op.Val = nestUnder(rapid.SampledFrom(g.ListNames).Draw(t, "listname"), gen.GenList(t, g.Trees, 1))
			}
			op.Policy = rapid.SampledFrom(g.Policies).Draw(t, "policy")
		case Reattach:
			op.Src = rapid.IntRange(0, 5).Draw(t, "src")
		}
		c.Ops = append(c.Ops, op)
	}
	all := append(append([]Addr{}, used...), usedVia...)
	for i := 0; i < g.NReads; i++ {
		label := "read" + strconv.Itoa(i)
		if len(all) > 0 && rapid.IntRange(0, 9).Draw(t, label+"rel") < 7 {
			c.Reads = append(c.Reads, related(t, g, all, label, false))
		} else {
			c.Reads = append(c.Reads, GenAddr(t, g, label))
		}
	}
	return c
}
