// Package hist is the operation-history engine shared by properties C12 and
// C15: a history is DATA (a list of low-level operations with their
// addresses, values and handle indices); Apply executes one operation against
// a real config and against the path/tree model (model (iii)) in lock-step
// and reports when the two disagree about the outcome. What is checked after
// each step is up to the property package.
//
// Dimensions a property package can switch on through GenCfg (all off by
// default): index segments in every integer syntax (Respell, WideIdx), Merge
// sources other than generic data (Sources: mixed Go representations, fresh
// *Config objects that stay in the case as stand-alone handles, the *Config
// of an existing handle, generic data embedding such a config), path
// separators other than "." (Seps), rejected operations (OverIdx, BadMerge:
// reject.go), Go struct representations of initial / attached / merged trees
// (Structs: structs.go). Stand-alone configs live in the same
// pool as child handles: the model of a Merge copies, so the model trees of
// source and receiver are independent and any later write that shows up on
// the other side is reported by the per-handle comparison of the property.
package hist

import (
	"fmt"
	"strconv"
	"strings"

	ucfg "github.com/elastic/go-ucfg"
	"pgregory.net/rapid"

	"verif/harness/internal/gen"
	"verif/harness/internal/model"
	"verif/harness/internal/uc"
)

// Addr is a (name, idx) address as the low-level API takes it. Idx == -1
// means "no index"; an empty name addresses the list part of the receiver.
type Addr struct {
	Name string `json:"name"`
	Idx  int    `json:"idx"`
}

func (a Addr) String() string { return fmt.Sprintf("(%q,%d)", a.Name, a.Idx) }

// Operation kinds.
const (
	Set      = "set"      // SetBool/SetInt/SetUint/SetFloat/SetString, chosen by the kind of Val
	SetChild = "setchild" // SetChild of a fresh config built from the tree Val; the new child is pooled via Child
	Remove   = "remove"
	Merge    = "merge" // Merge of the tree Val under Policy
	Child    = "child" // Child: the handle is added to the pool
	// Reattach: SetChild of an existing child (pooled handle Src) at a new place,
	// after removing it from where it is attached now (so that a move and a copy
	// reading of SetChild agree on the outcome).
	Reattach = "reattach"
)

// Sources of a Merge (Op.From).
const (
	FromData   = ""       // generic data: Val as map[string]interface{} / []interface{}
	FromRepr   = "repr"   // Val in the mixed Go representations chosen by its R fields (typed maps and slices, arrays, structs, pointers, embedded *Config)
	FromConfig = "config" // a fresh *Config built from Val (NewFrom); it stays in the case as a pooled stand-alone handle
	FromHandle = "handle" // the *Config of an existing handle: Src == 0 the root, Src == k > 0 pooled handle (k-1) modulo pool size
	// FromEmbed: generic data that holds the *Config of an existing handle (Src as for FromHandle) as a value:
	// map[string]interface{}{Name: cfg}, or []interface{}{cfg} if Name is empty
	FromEmbed = "embed"
)

// Op is one step of a history.
type Op struct {
	Kind   string       `json:"kind"`
	H      int          `json:"h,omitempty"` // receiver: 0 = the root, k > 0 = pooled handle (k-1) modulo pool size
	Name   string       `json:"name"`
	Idx    int          `json:"idx"`
	Val    *gen.Tree    `json:"val,omitempty"`
	Policy model.Policy `json:"policy,omitempty"`
	Src    int          `json:"src,omitempty"`  // reattach: pooled handle Src modulo pool size; merge from a handle: see FromHandle
	From   string       `json:"from,omitempty"` // merge: where the merged value comes from (FromData, FromRepr, FromConfig, FromHandle)
	// MaxIdx: the operation (Set, SetChild, Remove, Child) is given the option ucfg.MaxIdx(*MaxIdx) in addition
	// to the options of the case (nil: the default maximum index, 1024)
	MaxIdx *int64 `json:"maxidx,omitempty"`
	// Fault > 0: a Merge from generic data whose source holds a value of a type no configuration can hold
	// (a channel, a function, a complex number) at a place chosen by Fault: the Merge must fail (see reject.go)
	Fault int `json:"fault,omitempty"`
}

func (o Op) Addr() Addr { return Addr{o.Name, o.Idx} }

func (o Op) String() string {
	s := fmt.Sprintf("%s h=%d (%q,%d)", o.Kind, o.H, o.Name, o.Idx)
	if o.Kind == Merge {
		s += " " + o.Policy.String()
		switch o.From {
		case FromHandle:
			s += fmt.Sprintf(" from handle src=%d", o.Src)
		case FromEmbed:
			s += fmt.Sprintf(" from data embedding handle src=%d", o.Src)
		case FromConfig, FromRepr, FromStruct:
			s += " from " + o.From
		}
	}
	if o.Kind == Reattach {
		s += fmt.Sprintf(" src=%d", o.Src)
	}
	if o.Kind == SetChild && o.From == FromStruct {
		s += " (config built from struct representations)"
	}
	if o.MaxIdx != nil {
		s += fmt.Sprintf(" MaxIdx(%d)", *o.MaxIdx)
	}
	if o.Fault > 0 {
		s += fmt.Sprintf(" source with a value of unsupported type (fault %d)", o.Fault)
	}
	return s
}

// Case is a whole history.
type Case struct {
	PathSep bool      `json:"pathsep"`
	Sep     string    `json:"sep,omitempty"` // the separator given to PathSep ("" = ".")
	Init    *gen.Tree `json:"init,omitempty"`
	Ops     []Op      `json:"ops"`
	Reads   []Addr    `json:"reads,omitempty"` // addresses of the point reads made after every step
	// InitRepr: the initial tree is given to NewFrom in the struct representations chosen by its R fields (StructRepr)
	InitRepr bool `json:"initrepr,omitempty"`
	// ExclD14 counts the re-attachment operations the generator constructed away
	// because finding D14 is open.
	ExclD14 int `json:"excl_d14,omitempty"`
}

// Handle pairs a config with the model node it is a view of.
type Handle struct {
	C  *ucfg.Config
	M  *model.Node
	ID int // 0 = root, else sequence number of the handle
}

// State is the lock-step state of a history.
type State struct {
	Sep     string
	Opts    []ucfg.Option
	Root    Handle
	Pool    []Handle
	PoolCap int
	NoMixed bool // skip operations that would give a node named keys and list elements at once (C15)
	// LooseEmpty: the history has brought an empty list to a place where the statement does not say whether
	// what results is a list (an empty list merged into a nil or into a container without a list part, a
	// config made from a top-level empty list, an empty list handed over as a *Config made from it). From
	// then on "a node without a list part is no list" is not decidable from the model any more; "a list
	// stays a list" (model.Node.IsList) always is.
	LooseEmpty bool

	ring    int
	seq     int
	written map[*model.Node]bool
	// Merges whose source was a *Config: the model nodes of the sources
	cfgSrc []*model.Node
	cfgIn  map[*model.Node]bool // nodes such a Merge copied into its receiver
}

// Info describes what one Apply did.
type Info struct {
	Skipped   string // non-empty: the operation was not applicable and nothing happened
	ViaHandle bool   // executed through a pooled handle
	Detached  bool   // ... whose node is not reachable from the root any more
	Rejected  bool   // the model rejects the operation: an error was demanded
	Wrote     bool   // a mutation took place
	Overlap   bool   // the mutation removed or overwrote something an earlier write of the history had put there
	Padded    bool   // a list was padded with nils
	Shifted   bool   // a list removal shifted later elements down
	Retired   int    // handles retired (merge reached their subtree / re-attachment)
	Pooled    bool   // a handle was added to the pool
	Receiver  Handle
	// rejected operations (Rejected): why the model rejects it, and whether the address of a rejected write
	// has intermediate nodes that do not exist (nothing may be left behind there)
	RejectWhy    string
	MissingBelow bool
	MaxIdxOpt    bool // the operation was given a MaxIdx option
	AtMax        bool // an accepted write whose explicit index equals the maximum index
	// empty lists (model.Node.IsList with 0 elements)
	Emptied      bool // a removal took the last remaining element of a list
	BelowEmpty   bool // the operation addressed a setting directly below a list with 0 elements (refill, removal, read of nothing)
	RecvEmpty    bool // the receiver itself was a list with 0 elements (and no named keys) when the operation started
	EmptyHandle  bool // Child: the handle that was pooled is a view of a list with 0 elements
	EmptyBrought bool // SetChild/Merge: the tree brought in contains a list with 0 elements
	// merges
	Source      string         // merge: FromData ("data"), FromRepr, FromConfig, FromHandle ("handle: root", "handle: child", "handle: stand-alone")
	SrcInTarget bool           // merge from a handle that is a descendant of the receiver
	SrcList     bool           // merge: the top level of the source has a list part
	SrcDict     bool           // merge: the top level of the source has named keys
	Reprs       map[string]int // merge from FromRepr: the Go representations used
	// writes after a Merge whose source was a *Config
	SrcSide bool // the mutation went into a config (or below one) that was such a source earlier
	DstSide bool // the mutation went into (or above, or below) a node that was such a receiver earlier
}

// New builds the initial state of a case. The second result is false if the
// case is outside the precondition (NoMixed and the initial tree is mixed).
func New(c Case, noMixed bool) (*State, bool, error) {
	s := &State{PoolCap: 6, NoMixed: noMixed, written: map[*model.Node]bool{}, cfgIn: map[*model.Node]bool{}}
	if c.PathSep {
		s.Sep = "."
		if c.Sep != "" {
			s.Sep = c.Sep
		}
		s.Opts = []ucfg.Option{ucfg.PathSep(s.Sep)}
	}
	m := model.NewCont()
	cfg := ucfg.New()
	if c.Init != nil {
		if !c.Init.IsCont() {
			return nil, false, nil
		}
		from, ferr := model.FromTreeSep(c.Init, s.Sep, true)
		if ferr != nil {
			return nil, false, nil // two keys of one object define the same setting: C06's domain
		}
		s.LooseEmpty = model.EmptyListMeets(model.Default, m, from)
		model.MergeCont(model.Default, nil, m, from)
		if noMixed && m.Mixed() {
			return nil, false, nil
		}
		var err error
		err = uc.Safe("NewFrom", func() error {
			v, e := treeValue(c.Init, c.InitRepr, s.Opts, nil)
			if e != nil {
				return e
			}
			cfg, e = ucfg.NewFrom(v, s.Opts...)
			return e
		})
		if err != nil {
			return nil, true, fmt.Errorf("NewFrom(initial tree) failed: %v", err)
		}
	}
	s.Root = Handle{C: cfg, M: m}
	return s, true, nil
}

// Resolve returns the receiver an H value denotes.
func (s *State) Resolve(h int) (Handle, bool) {
	if h <= 0 {
		return s.Root, true
	}
	if len(s.Pool) == 0 {
		return Handle{}, false
	}
	return s.Pool[(h-1)%len(s.Pool)], true
}

func (s *State) pool(h Handle) {
	s.seq++
	h.ID = s.seq
	if len(s.Pool) < s.PoolCap {
		s.Pool = append(s.Pool, h)
		return
	}
	s.Pool[s.ring%len(s.Pool)] = h
	s.ring++
}

func (s *State) retire(pred func(Handle) bool) int {
	n := 0
	kept := s.Pool[:0]
	for _, h := range s.Pool {
		if pred(h) {
			n++
			continue
		}
		kept = append(kept, h)
	}
	s.Pool = kept
	return n
}

func (s *State) containsWritten(n *model.Node) bool {
	if n == nil {
		return false
	}
	found := false
	n.Walk(nil, func(_ []model.Seg, m *model.Node) {
		if s.written[m] {
			found = true
		}
	})
	return found
}

// ValidAddr: addresses outside the domain of these properties (negative
// indices, no name and no index) are C07's.
func ValidAddr(name string, idx int) bool {
	return idx >= -1 && !(name == "" && idx < 0)
}

func nodeSet(root *model.Node) map[*model.Node]bool {
	out := map[*model.Node]bool{}
	var rec func(n *model.Node)
	rec = func(n *model.Node) {
		out[n] = true
		if n.Kind != "cont" {
			return
		}
		for _, c := range n.D {
			rec(c)
		}
		for _, c := range n.A {
			rec(c)
		}
	}
	rec(root)
	return out
}

// sides classifies a mutation at segs below h with respect to earlier merges
// from a *Config: did it go into a tree that was the source of one, or into a
// part of a tree that one has copied in?
func (s *State) sides(h Handle, segs []model.Seg, old *model.Node, info *Info) {
	if len(s.cfgSrc) == 0 {
		return
	}
	p := h.M
	if len(segs) > 1 {
		if n, err := h.M.Lookup(segs[:len(segs)-1]); err == nil {
			p = n
		}
	}
	for _, n := range s.cfgSrc {
		if n.Contains(p) {
			info.SrcSide = true
		}
	}
	if s.cfgIn[p] || (old != nil && s.cfgIn[old]) {
		info.DstSide = true
	}
}

// treeModel is the model of NewFrom(t): a new config with t merged in. The
// second result reports that t is an empty list at its top level (whether the
// config is a list then is not stated).
func treeModel(t *gen.Tree, sep string) (*model.Node, bool, error) {
	m := model.NewCont()
	from, err := model.FromTreeSep(t, sep, true)
	if err != nil {
		return nil, false, err
	}
	loose := model.EmptyListMeets(model.Default, m, from)
	model.MergeCont(model.Default, nil, m, from)
	return m, loose, nil
}

// emptyListAsConfig: the representations chosen for the tree hand an empty
// list over as a *Config made from it.
func emptyListAsConfig(t *gen.Tree) bool {
	found := false
	t.Walk(nil, func(_ []string, n *gen.Tree) {
		if n.K == "list" && len(n.Vals) == 0 && n.R%gen.NRepr == 3 {
			found = true
		}
	})
	return found
}

func isEmptyList(n *model.Node) bool { return n != nil && n.IsList() && len(n.A) == 0 }

func setPrim(c *ucfg.Config, name string, idx int, v *gen.Tree, opts []ucfg.Option) error {
	return uc.Safe("Set", func() error {
		switch v.K {
		case "bool":
			return c.SetBool(name, idx, v.B, opts...)
		case "int":
			return c.SetInt(name, idx, v.I, opts...)
		case "uint":
			return c.SetUint(name, idx, v.U, opts...)
		case "float":
			return c.SetFloat(name, idx, v.FloatVal(), opts...)
		case "str":
			return c.SetString(name, idx, v.S, opts...)
		}
		return fmt.Errorf("harness: not a primitive: %s", v.K)
	})
}

func padded(n *model.Node, segs []model.Seg) bool {
	// does the write leave a gap that has to be filled with nils?
	cur := n
	for _, sg := range segs {
		if cur == nil { // built from scratch from here on
			if sg.IsIdx && sg.Idx > 0 {
				return true
			}
			continue
		}
		if cur.Kind != "cont" {
			return false
		}
		if sg.IsIdx && sg.Idx > len(cur.A) {
			return true
		}
		nx, err := cur.Step(sg)
		if err != nil || nx == nil || nx.Kind == "nil" {
			cur = nil
		} else {
			cur = nx
		}
	}
	return false
}

func mismatch(what string, op Op, err, merr error) error {
	if merr != nil {
		return fmt.Errorf("%s: the model rejects the operation (%v) but the library reported no error", what, merr)
	}
	return fmt.Errorf("%s: the library failed (%v) but the model accepts the operation", what, err)
}

// Apply executes one operation on the library and the model. A non-nil error
// is a disagreement about the outcome (success vs. error, or the result of
// Remove): a violation of the property.
func (s *State) Apply(op Op) (Info, error) {
	var info Info
	h, ok := s.Resolve(op.H)
	if !ok {
		info.Skipped = "no pooled handle"
		return info, nil
	}
	info.Receiver = h
	isWrite := op.Kind == Set || op.Kind == SetChild
	if op.Kind != Merge && !ValidAddr(op.Name, op.Idx) && !(isWrite && op.Name == "") {
		// (a write at a negative index of the receiver's own list part is a rejected write: reject.go)
		info.Skipped = "address outside the domain"
		return info, nil
	}
	if op.H > 0 {
		info.ViaHandle = true
		info.Detached = !s.Root.M.Contains(h.M)
	}
	what := fmt.Sprintf("%s on handle #%d", op, h.ID)
	segs := model.ParseAddr(op.Name, op.Idx, s.Sep)
	opOpts := s.Opts
	if op.MaxIdx != nil && op.Kind != Merge && op.Kind != Reattach {
		if segAbove(op.Name, s.Sep, *op.MaxIdx) {
			// such a segment is a named key under this option: what numeric segments denote is C20's
			info.Skipped = "index segment above the MaxIdx option"
			return info, nil
		}
		opOpts = append(append([]ucfg.Option{}, s.Opts...), ucfg.MaxIdx(*op.MaxIdx))
		info.MaxIdxOpt = true
	}
	info.RecvEmpty = h.M.IsEmptyList()
	if isWrite {
		if why := outOfRange(op); why != "" {
			// the model rejects the write whatever the tree holds; nothing is tried on it (no padding up to the index)
			return s.rejectedWrite(op, h, segs, opOpts, what, why, info)
		}
	}
	if op.Kind != Merge {
		if par, err := h.M.Lookup(segs[:len(segs)-1]); err == nil && isEmptyList(par) {
			info.BelowEmpty = true
		}
	}
	switch op.Kind {
	case Set:
		if op.Val == nil || !op.Val.IsPrim() {
			info.Skipped = "set without a primitive"
			return info, nil
		}
		if s.NoMixed {
			cp := h.M.Copy()
			if _, err := cp.SetPath(segs, model.NewPrim(op.Val.Prim())); err == nil && cp.Mixed() {
				info.Skipped = "would create a mixed node"
				return info, nil
			}
		}
		pad := padded(h.M, segs)
		v := model.NewPrim(op.Val.Prim())
		old, merr := h.M.SetPath(segs, v)
		missing := missingBelow(h.M, segs)
		err := setPrim(h.C, op.Name, op.Idx, op.Val, opOpts)
		if (err == nil) != (merr == nil) {
			return info, mismatch(what, op, err, merr)
		}
		if merr != nil {
			info.Rejected, info.RejectWhy, info.MissingBelow = true, "the path walks through a primitive", missing
			return info, nil
		}
		info.Wrote, info.Padded, info.AtMax = true, pad, atMax(op)
		info.Overlap = s.containsWritten(old)
		s.written[v] = true
		s.sides(h, segs, old, &info)

	case SetChild:
		if op.Val == nil || !op.Val.IsCont() {
			info.Skipped = "setchild without a tree"
			return info, nil
		}
		m, loose, terr := treeModel(op.Val, s.Sep)
		if terr != nil {
			info.Skipped = "tree with conflicting keys"
			return info, nil
		}
		if s.NoMixed {
			cp := h.M.Copy()
			if _, err := cp.SetPath(segs, m.Copy()); err == nil && cp.Mixed() {
				info.Skipped = "would create a mixed node"
				return info, nil
			}
		}
		if loose {
			s.LooseEmpty = true
		}
		info.EmptyBrought = model.HasEmptyList(op.Val)
		var fresh *ucfg.Config
		if op.From == FromStruct {
			info.Reprs = map[string]int{}
		}
		if err := uc.Safe("NewFrom", func() error {
			v, e := treeValue(op.Val, op.From == FromStruct, s.Opts, info.Reprs)
			if e != nil {
				return e
			}
			fresh, e = ucfg.NewFrom(v, s.Opts...)
			return e
		}); err != nil {
			return info, fmt.Errorf("%s: NewFrom(tree) failed: %v", what, err)
		}
		pad := padded(h.M, segs)
		old, merr := h.M.SetPath(segs, m)
		err := uc.Safe("SetChild", func() error { return h.C.SetChild(op.Name, op.Idx, fresh, opOpts...) })
		if (err == nil) != (merr == nil) {
			return info, mismatch(what, op, err, merr)
		}
		if merr != nil {
			info.Rejected, info.RejectWhy = true, "the path walks through a primitive"
			return info, nil
		}
		info.Wrote, info.Padded, info.AtMax = true, pad, atMax(op)
		info.Overlap = s.containsWritten(old)
		s.written[m] = true
		s.sides(h, segs, old, &info)
		// the new child, obtained the way a user would obtain it, joins the pool
		var ch *ucfg.Config
		if err := uc.Safe("Child", func() error {
			var e error
			ch, e = h.C.Child(op.Name, op.Idx, opOpts...)
			return e
		}); err != nil || ch == nil {
			return info, fmt.Errorf("%s: Child at the address just given to SetChild failed: %v", what, err)
		}
		s.pool(Handle{C: ch, M: m})
		info.Pooled = true

	case Remove:
		shift, emptied := false, false
		if last := segs[len(segs)-1]; last.IsIdx {
			if par, err := h.M.Lookup(segs[:len(segs)-1]); err == nil && par.Kind == "cont" {
				shift = last.Idx < len(par.A)-1
				emptied = last.Idx == 0 && len(par.A) == 1
			}
		}
		removed, old, merr := h.M.RemovePath(segs)
		var got bool
		err := uc.Safe("Remove", func() error {
			var e error
			got, e = h.C.Remove(op.Name, op.Idx, opOpts...)
			return e
		})
		if (err == nil) != (merr == nil) {
			return info, mismatch(what, op, err, merr)
		}
		if merr != nil {
			info.Rejected, info.RejectWhy = true, "the path walks through a primitive"
			return info, nil
		}
		if got != removed {
			return info, fmt.Errorf("%s: Remove returned %v, the model says %v", what, got, removed)
		}
		if removed {
			info.Wrote, info.Shifted, info.Emptied = true, shift, emptied
			info.Overlap = s.containsWritten(old)
			s.sides(h, segs, old, &info)
		}

	case Merge:
		// where the merged value comes from
		var from *model.Node // what the source holds, in the model
		var src interface{}  // what is handed to Merge
		var srcHandle *Handle
		var srcM *model.Node // the model node of a *Config source
		isCfg := false
		switch op.From {
		case FromHandle:
			sh, ok := s.Resolve(op.Src)
			if !ok {
				info.Skipped = "no pooled handle"
				return info, nil
			}
			from, src, isCfg = sh.M, sh.C, true
			switch {
			case sh.M.Contains(h.M):
				// merging a config into itself or into one of its own descendants reads what it is writing
				info.Skipped = "merge source contains the target"
				return info, nil
			case h.M.Contains(sh.M):
				// a descendant merged into an ancestor: fine as long as the merge does not reach the
				// branch the source hangs in (it would modify the source while reading it)
				p, _ := h.M.PathTo(sh.M)
				if first := p[0]; (first.IsIdx && len(from.A) > 0) || (!first.IsIdx && len(from.D) > 0 && (from.D[first.Name] != nil || op.Policy == model.Replace)) {
					info.Skipped = "merge would modify its own source"
					return info, nil
				}
				from, srcM = sh.M.Copy(), sh.M // a snapshot, so that the model does not read what it writes either
				info.SrcInTarget = true
			}
			switch {
			case op.Src <= 0:
				info.Source = "handle: the root"
			case s.Root.M.Contains(sh.M):
				info.Source = "handle: child of the root's tree"
			default:
				info.Source = "handle: stand-alone or detached config"
			}
		case FromEmbed:
			sh, ok := s.Resolve(op.Src)
			if !ok {
				info.Skipped = "no pooled handle"
				return info, nil
			}
			// the data is normalized (the embedded config copied) before anything is merged: the
			// model merges a snapshot, and source and receiver may be the same tree
			snap := sh.M.Copy()
			from = model.NewCont()
			if op.Name == "" {
				from.A = append(from.A, snap)
				src = []interface{}{sh.C}
				info.Source = "data embedding a handle's *Config as a list element"
			} else {
				if _, err := from.SetPath(model.ParseAddr(op.Name, -1, s.Sep), snap); err != nil {
					info.Skipped = "embedding key not usable"
					return info, nil
				}
				src = map[string]interface{}{op.Name: sh.C}
				info.Source = "data embedding a handle's *Config under a key"
			}
			isCfg, srcM = true, sh.M
		case FromConfig:
			if op.Val == nil || !op.Val.IsCont() {
				info.Skipped = "merge without a tree"
				return info, nil
			}
			var fresh *ucfg.Config
			if err := uc.Safe("NewFrom", func() error {
				var e error
				fresh, e = ucfg.NewFrom(op.Val.Go(), s.Opts...)
				return e
			}); err != nil {
				return info, fmt.Errorf("%s: NewFrom(tree) failed: %v", what, err)
			}
			var loose bool
			var terr error
			from, loose, terr = treeModel(op.Val, s.Sep)
			if terr != nil {
				info.Skipped = "tree with conflicting keys"
				return info, nil
			}
			if loose {
				s.LooseEmpty = true
			}
			src, isCfg = fresh, true
			srcHandle = &Handle{C: fresh, M: from}
			info.Source = "fresh *Config"
		case FromStruct:
			if op.Val == nil || !op.Val.IsCont() {
				info.Skipped = "merge without a tree"
				return info, nil
			}
			info.Reprs = map[string]int{}
			v, err := treeValue(op.Val, true, s.Opts, info.Reprs)
			if err != nil {
				return info, fmt.Errorf("%s: %v", what, err)
			}
			var terr error
			if from, terr = model.FromTreeSep(op.Val, s.Sep, true); terr != nil {
				info.Skipped = "tree with conflicting keys"
				return info, nil
			}
			src = v
			info.Source = "struct representations"
		case FromRepr:
			if op.Val == nil || !op.Val.IsCont() {
				info.Skipped = "merge without a tree"
				return info, nil
			}
			info.Reprs = map[string]int{}
			var v interface{}
			if err := uc.Safe("GoRepr", func() error {
				var e error
				v, e = op.Val.GoRepr(s.Opts, info.Reprs)
				return e
			}); err != nil {
				return info, fmt.Errorf("%s: building the Go representation of the tree failed: %v", what, err)
			}
			var terr error
			from, terr = model.FromTreeSep(op.Val, s.Sep, true)
			src = v
			if terr == nil && emptyListAsConfig(op.Val) {
				// such a config is an empty config and no list: no list marks for this tree at all
				from, terr = model.FromTreeSep(op.Val, s.Sep, false)
				s.LooseEmpty = true
			}
			if terr != nil {
				info.Skipped = "tree with conflicting keys"
				return info, nil
			}
			info.Source = "mixed Go representations"
		default:
			if op.Val == nil || !op.Val.IsCont() {
				info.Skipped = "merge without a tree"
				return info, nil
			}
			var terr error
			if from, terr = model.FromTreeSep(op.Val, s.Sep, true); terr != nil {
				info.Skipped = "tree with conflicting keys"
				return info, nil
			}
			src = op.Val.Go()
			info.Source = "generic data"
			if op.Fault > 0 {
				return s.rejectedMerge(op, h, src, what, info)
			}
		}
		info.SrcList, info.SrcDict = len(from.A) > 0, len(from.D) > 0
		from.Walk(nil, func(_ []model.Seg, n *model.Node) {
			if isEmptyList(n) {
				info.EmptyBrought = true
			}
		})
		if s.NoMixed {
			cp := h.M.Copy()
			model.MergeCont(op.Policy, nil, cp, from)
			if cp.Mixed() {
				info.Skipped = "would create a mixed node"
				return info, nil
			}
		}
		// Merge copies the subtrees it reaches: handles into them are retired (reading decision 9)
		var reached []*model.Node
		if len(from.D) > 0 {
			for _, k := range h.M.SortedKeys() {
				if _, hit := from.D[k]; hit || op.Policy == model.Replace {
					reached = append(reached, h.M.D[k])
				}
			}
		}
		if len(from.A) > 0 {
			reached = append(reached, h.M.A...)
		}
		info.Retired = s.retire(func(p Handle) bool {
			for _, r := range reached {
				if r.Contains(p.M) {
					return true
				}
			}
			return false
		})
		var before map[*model.Node]bool
		if isCfg {
			before = nodeSet(h.M)
		}
		if model.EmptyListMeets(op.Policy, h.M, from) {
			s.LooseEmpty = true
		}
		model.MergeCont(op.Policy, nil, h.M, from)
		opts := append(append([]ucfg.Option{}, s.Opts...), uc.PolicyOpts(op.Policy)...)
		if err := uc.Safe("Merge", func() error { return h.C.Merge(src, opts...) }); err != nil {
			return info, fmt.Errorf("%s: Merge failed: %v", what, err)
		}
		info.Wrote = true
		if isCfg {
			// Merge copies: from now on the source and the receiver are two independent trees.
			// Remember both sides so that later writes on either side are visible in the statistics.
			if srcM == nil {
				srcM = from
			}
			s.cfgSrc = append(s.cfgSrc, srcM)
			for n := range nodeSet(h.M) {
				if !before[n] {
					s.cfgIn[n] = true
				}
			}
		}
		if srcHandle != nil {
			// the source config stays in the case: later operations write through it and every
			// check of the pooled handles reads it
			s.pool(*srcHandle)
			info.Pooled = true
		}

	case Child:
		n, merr := h.M.Lookup(segs)
		var ch *ucfg.Config
		err := uc.Safe("Child", func() error {
			var e error
			ch, e = h.C.Child(op.Name, op.Idx, opOpts...)
			return e
		})
		if merr == nil && n.Kind == "nil" {
			// a nil setting: the statement does not say whether it is a child; nothing is pooled
			info.Skipped = "child of a nil setting"
			return info, nil
		}
		if merr == nil && n.Kind == "prim" {
			merr = model.ErrExpectedObject
		}
		if (err == nil) != (merr == nil) {
			return info, mismatch(what, op, err, merr)
		}
		if merr != nil {
			info.Rejected, info.RejectWhy = true, "no container there"
			return info, nil
		}
		if ch == nil {
			return info, fmt.Errorf("%s: Child returned nil without an error", what)
		}
		s.pool(Handle{C: ch, M: n})
		info.Pooled = true
		info.EmptyHandle = isEmptyList(n)

	case Reattach:
		if len(s.Pool) == 0 {
			info.Skipped = "no pooled handle"
			return info, nil
		}
		src := s.Pool[((op.Src%len(s.Pool))+len(s.Pool))%len(s.Pool)]
		if src.M.Contains(h.M) {
			info.Skipped = "would create a cycle"
			return info, nil
		}
		// 1. detach the child from where it is attached now (through the root)
		if p, found := s.Root.M.PathTo(src.M); found && len(p) > 0 {
			par, err := s.Navigate(s.Root, p[:len(p)-1])
			if err != nil {
				return info, fmt.Errorf("%s: navigating to the parent of the child failed: %v", what, err)
			}
			last := p[len(p)-1]
			name, idx := last.Name, -1
			if last.IsIdx {
				name, idx = "", last.Idx
			}
			rm, _, merr := par.M.RemovePath([]model.Seg{last})
			var got bool
			err = uc.Safe("Remove", func() error {
				var e error
				got, e = par.C.Remove(name, idx, s.Opts...)
				return e
			})
			if err != nil || merr != nil || !got || !rm {
				return info, fmt.Errorf("%s: removing the child at %s before re-attaching it: library %v,%v model %v,%v", what, model.JoinSegs(p, "."), got, err, rm, merr)
			}
			if last.IsIdx {
				info.Shifted = true
			}
			info.Wrote = true
		}
		// 2. attach it at the new place
		if s.NoMixed {
			cp := h.M.Copy()
			if _, err := cp.SetPath(segs, src.M.Copy()); err == nil && cp.Mixed() {
				info.Skipped = "would create a mixed node"
				info.Retired = s.retire(func(Handle) bool { return true })
				return info, nil
			}
		}
		_, merr := h.M.SetPath(segs, src.M)
		err := uc.Safe("SetChild", func() error { return h.C.SetChild(op.Name, op.Idx, src.C, s.Opts...) })
		// whether the old handle is a view of the new place (move) or not (copy) is open: retire all handles
		info.Retired = s.retire(func(Handle) bool { return true })
		if (err == nil) != (merr == nil) {
			return info, mismatch(what, op, err, merr)
		}
		if merr != nil {
			info.Rejected = true
			return info, nil
		}
		info.Wrote = true

	default:
		info.Skipped = "unknown kind"
	}
	return info, nil
}

// SegAddr is the (name, idx) address of a single segment.
func SegAddr(sg model.Seg) (string, int) {
	if sg.IsIdx {
		return "", sg.Idx
	}
	return sg.Name, -1
}

// Navigate walks from a handle along segments with one Child call per
// segment, following the model in parallel.
func (s *State) Navigate(from Handle, segs []model.Seg) (Handle, error) {
	cur := from
	for i, sg := range segs {
		name, idx := SegAddr(sg)
		var ch *ucfg.Config
		if err := uc.Safe("Child", func() error {
			var e error
			ch, e = cur.C.Child(name, idx, s.Opts...)
			return e
		}); err != nil {
			return Handle{}, fmt.Errorf("Child(%q,%d) at %q: %v", name, idx, model.JoinSegs(segs[:i], "."), err)
		}
		m, err := cur.M.Step(sg)
		if err != nil || m == nil {
			return Handle{}, fmt.Errorf("harness: model has no node at %q", model.JoinSegs(segs[:i+1], "."))
		}
		cur = Handle{C: ch, M: m}
	}
	return cur, nil
}

// Positions maps every non-nil node below root (by pointer) to its path.
func Positions(root *model.Node) map[*model.Node]string {
	out := map[*model.Node]string{}
	root.Walk(nil, func(p []model.Seg, n *model.Node) {
		if n.Kind != "nil" {
			out[n] = model.JoinSegs(p, "\x00")
		}
	})
	return out
}

// Moved reports whether a node present before and after has changed its path.
func Moved(before, after map[*model.Node]string) bool {
	for n, p := range before {
		if q, ok := after[n]; ok && q != p {
			return true
		}
	}
	return false
}

// ---------------------------------------------------------------------------
// generator

// GenCfg parametrises the history generator.
type GenCfg struct {
	Names    []string // overlapping pool of names and dotted paths ("" = the receiver's list part)
	MaxIdx   int      // explicit indices are drawn from 0..MaxIdx (and -1 = none, weighted)
	MinOps   int
	MaxOps   int
	Kinds    []string // operation kinds; repeat a kind to weight it
	Trees    *gen.TreeCfg
	Prims    *gen.TreeCfg
	Policies []model.Policy
	NReads   int
	// ListNames: names under which half of the merged trees carry a list, so that list merges meet existing lists
	ListNames []string
	// InitLists (out of 10): chance that the initial tree carries lists of 2-4 elements under the ListNames
	InitLists int
	// MoveBias (out of 10): chance that a removal addresses an element of one of the ListNames directly
	MoveBias int
	// D14Open: re-attachments are constructed away (counted in Case.ExclD14)
	D14Open bool

	// The fields below add dimensions; their zero values leave the generator exactly as it was.

	// Respell (out of 10): chance that a segment of a drawn address (or an object key of a merged / attached
	// tree) that is a list index is written in another integer syntax (model.IndexSpellings)
	Respell int
	// WideIdx (out of 10): chance that an explicit index is drawn from WideIdxs instead of 0..MaxIdx
	// (indices whose octal, hexadecimal and decimal spellings differ)
	WideIdx  int
	WideIdxs []int
	// Sources (out of 10): chance that a Merge takes its value from something else than generic data:
	// mixed Go representations, a fresh *Config that stays in the case, or the *Config of an existing handle
	Sources int
	// SrcTrees: generator settings for trees that become *Config sources (nil: Trees)
	SrcTrees *gen.TreeCfg
	// Seps: the separators given to PathSep (empty: always "."). Names are generated with "." and
	// rewritten, so none of the separators may occur in Names or in the keys of the trees.
	Seps []string
	// Drain (out of 10): chance that a removal which addresses a list element is followed by 1-3 more
	// removals from the same list through the same receiver (at index 0, or at the same index again), so
	// that lists lose their last remaining element; the list's address joins the addresses later
	// operations and reads are steered to (refill, padding write, Child, removal of the empty list, merges)
	Drain int
	// Dotted (out of 10): chance that, with a path separator, a tree that is merged, attached with SetChild or
	// given to NewFrom (the initial tree, fresh *Config sources) spells part of its structure in dotted keys
	// (FoldKeys: "l.02.x": 1 for l: [nil, nil, {x: 1}]), list indices in every integer syntax (Respell)
	Dotted int
	// OverIdx (out of 20): chance that a Set / SetChild becomes a write at the boundary of the index range
	// (reject.go: explicit index above / at the maximum index, which is the default or a MaxIdx option of the
	// operation; negative index; at addresses extended by segments nothing was written to), and half that
	// chance that a Remove / Child is given a MaxIdx option that does not change what its address denotes
	OverIdx int
	// BadMerge (out of 20): chance that a Merge from generic data holds a value of unsupported type somewhere
	// (the Merge must fail and change nothing)
	BadMerge int
	// Structs (out of 10): chance that the initial tree, the tree of a SetChild, or the value of a Merge from
	// generic data is handed over in Go struct representations (structs.go: structs by value and pointer,
	// typed slices / arrays / maps of structs, nested), half of those trees being a list of objects with the
	// same keys below an existing or a new key
	Structs int
}

// listOf splits an address that denotes a list element into the address of the
// list and the index: an explicit index, or (dotted) a last name segment that
// is a plain decimal index.
func listOf(a Addr, dotted bool) (string, int, bool) {
	if a.Idx >= 0 {
		return a.Name, a.Idx, true
	}
	if !dotted {
		return "", 0, false
	}
	k := strings.LastIndex(a.Name, ".")
	if k <= 0 {
		return "", 0, false
	}
	i, err := strconv.Atoi(a.Name[k+1:])
	if err != nil || i < 0 || i > 64 || strconv.Itoa(i) != a.Name[k+1:] {
		return "", 0, false
	}
	return a.Name[:k], i, true
}

// GenAddr draws an address from the pool.
func GenAddr(t *rapid.T, g *GenCfg, label string) Addr {
	name := rapid.SampledFrom(g.Names).Draw(t, label+"name")
	idx := -1
	if name == "" || rapid.IntRange(0, 9).Draw(t, label+"withidx") < 4 {
		idx = rapid.IntRange(0, g.MaxIdx).Draw(t, label+"idx")
		if g.WideIdx > 0 && len(g.WideIdxs) > 0 && rapid.IntRange(0, 9).Draw(t, label+"wide") < g.WideIdx {
			idx = rapid.SampledFrom(g.WideIdxs).Draw(t, label+"wideidx")
		}
	}
	return Addr{name, idx}
}

// respellName rewrites segments of a name that are list indices in another
// integer syntax. dotted: the name is split at "." (a path separator is
// configured), otherwise it is one segment.
func respellName(t *rapid.T, g *GenCfg, name string, dotted bool, label string) string {
	if g.Respell == 0 || name == "" {
		return name
	}
	parts := []string{name}
	if dotted {
		parts = strings.Split(name, ".")
	}
	for i, p := range parts {
		sg := model.ClassifySeg(p)
		if !sg.IsIdx || rapid.IntRange(0, 9).Draw(t, label+"respell") >= g.Respell {
			continue
		}
		parts[i] = rapid.SampledFrom(model.IndexSpellings(sg.Idx)[1:]).Draw(t, label+"spelling")
	}
	return strings.Join(parts, ".")
}

// respellKeys does the same for the object keys of a tree (keys are never
// split: the trees of these properties have no separators in their keys).
// Two keys of one object never denote the same index afterwards because they
// did not before.
func respellKeys(t *rapid.T, g *GenCfg, tr *gen.Tree) {
	if g.Respell == 0 || tr == nil {
		return
	}
	tr.Walk(nil, func(_ []string, n *gen.Tree) {
		if n.K != "obj" {
			return
		}
		for i, k := range n.Keys {
			n.Keys[i] = respellName(t, g, k, false, "key")
		}
	})
}

// assignReprs draws the Go representation of every container of a tree.
func assignReprs(t *rapid.T, tr *gen.Tree) {
	tr.Walk(nil, func(_ []string, n *gen.Tree) {
		switch n.K {
		case "obj":
			n.R = rapid.IntRange(0, 2*gen.NRepr-1).Draw(t, "repr")
		case "list":
			n.R = rapid.IntRange(0, gen.NRepr-1).Draw(t, "repr")
		}
	})
}

// genSourceTree draws a tree that becomes a *Config source of a Merge: half of
// them are top-level lists whose elements are mostly objects (what a list of
// sub-configurations looks like), the others are like any merged tree.
func genSourceTree(t *rapid.T, g *GenCfg) *gen.Tree {
	cfg := g.SrcTrees
	if cfg == nil {
		cfg = g.Trees
	}
	switch rapid.IntRange(0, 3).Draw(t, "srcshape") {
	case 0, 1:
		l := gen.List()
		for k := rapid.IntRange(1, 3).Draw(t, "srclen"); k > 0; k-- {
			if rapid.IntRange(0, 3).Draw(t, "srcelem") == 0 {
				l.Vals = append(l.Vals, gen.GenTree(t, cfg, 1))
			} else {
				l.Vals = append(l.Vals, gen.GenObj(t, cfg, 1))
			}
		}
		return l
	case 2:
		return gen.GenObj(t, cfg, cfg.Depth)
	default:
		return genTop(t, cfg, cfg.Depth)
	}
}

// treeAddrs lists addresses of settings inside a tree (relative to the config
// it is merged into): the operations that follow a merge are steered there.
func treeAddrs(tr *gen.Tree) []Addr {
	var out []Addr
	tr.Walk(nil, func(p []string, n *gen.Tree) {
		if len(p) == 0 || len(p) > 3 {
			return
		}
		out = append(out, Addr{strings.Join(p, "."), -1})
		if n.K == "obj" && len(p) <= 2 {
			// a setting that is not there yet, next to the ones that are
			out = append(out, Addr{strings.Join(append(append([]string{}, p...), "x"), "."), -1})
		}
	})
	return out
}

// related draws an address related to one that an earlier operation wrote
// to: the same one, a prefix of it (the containers on the way), or a
// neighbouring list index. The generator does not know the state (it never
// runs the model), it only makes hits likely.
func related(t *rapid.T, g *GenCfg, used []Addr, label string, wantContainer bool) Addr {
	a := rapid.SampledFrom(used).Draw(t, label+"used")
	parts := strings.Split(a.Name, ".")
	mode := rapid.IntRange(0, 5).Draw(t, label+"mode")
	if wantContainer && mode < 2 {
		mode = 2 + mode
	}
	switch mode {
	case 0, 1: // the same address
		return a
	case 2, 3: // a prefix
		if a.Idx >= 0 && a.Name != "" && rapid.Bool().Draw(t, label+"list") {
			return Addr{a.Name, -1}
		}
		if len(parts) > 1 {
			k := rapid.IntRange(1, len(parts)-1).Draw(t, label+"cut")
			return Addr{strings.Join(parts[:k], "."), -1}
		}
		if a.Idx >= 0 && a.Name != "" {
			return Addr{a.Name, -1}
		}
		return a
	default: // a neighbouring index
		if a.Idx >= 0 {
			return Addr{a.Name, rapid.IntRange(0, g.MaxIdx).Draw(t, label+"nidx")}
		}
		if last := parts[len(parts)-1]; len(last) == 1 && last[0] >= '0' && last[0] <= '9' {
			parts[len(parts)-1] = strconv.Itoa(rapid.IntRange(0, g.MaxIdx).Draw(t, label+"nseg"))
			return Addr{strings.Join(parts, "."), -1}
		}
		return Addr{a.Name, rapid.IntRange(0, g.MaxIdx).Draw(t, label+"nidx2")}
	}
}

func genTop(t *rapid.T, cfg *gen.TreeCfg, depth int) *gen.Tree {
	if rapid.IntRange(0, 4).Draw(t, "toplist") == 0 {
		return gen.GenList(t, cfg, depth)
	}
	return gen.GenObj(t, cfg, depth)
}

func nestUnder(name string, v *gen.Tree) *gen.Tree {
	top := gen.Obj()
	cur := top
	parts := strings.Split(name, ".")
	for j, p := range parts {
		if j == len(parts)-1 {
			cur.Put(p, v)
		} else {
			nx := gen.Obj()
			cur.Put(p, nx)
			cur = nx
		}
	}
	return top
}

// Gen draws a history.
func Gen(t *rapid.T, g *GenCfg) Case {
	c := Case{PathSep: rapid.IntRange(0, 3).Draw(t, "pathsep") != 0}
	var used []Addr    // addresses written through the root
	var usedVia []Addr // addresses written through handles (relative to some handle)
	if g.InitLists > 0 && rapid.IntRange(0, 9).Draw(t, "initlists") < g.InitLists {
		// lists of 2-4 elements (primitives and small containers) where the history keeps its lists
		c.Init = gen.Obj()
		seen := map[string]bool{}
		for _, name := range g.ListNames {
			if seen[name] || rapid.IntRange(0, 3).Draw(t, "skiplist") == 0 {
				continue
			}
			seen[name] = true
			l := gen.List()
			for k := rapid.IntRange(2, 4).Draw(t, "initlen"); k > 0; k-- {
				l.Vals = append(l.Vals, gen.GenTree(t, g.Trees, 1))
			}
			// nestUnder builds a fresh chain; merge it into what is there
			parts := strings.Split(name, ".")
			cur := c.Init
			for j, p := range parts {
				if j == len(parts)-1 {
					cur.Put(p, l)
				} else {
					nx := cur.Get(p)
					if nx == nil || nx.K != "obj" {
						nx = gen.Obj()
						cur.Put(p, nx)
					}
					cur = nx
				}
			}
			used = append(used, Addr{name, 0}, Addr{name, 1})
		}
	} else if rapid.Bool().Draw(t, "withinit") {
		c.Init = gen.GenObj(t, g.Trees, g.Trees.Depth)
		if len(g.ListNames) > 0 && rapid.Bool().Draw(t, "initlist") {
			c.Init.Put(strings.Split(g.ListNames[0], ".")[0], gen.GenList(t, g.Trees, 1))
		}
	}
	pooling := 0 // operations so far that may have put a handle into the pool
	n := rapid.IntRange(g.MinOps, g.MaxOps).Draw(t, "nops")
	for i := 0; i < n; i++ {
		kind := rapid.SampledFrom(g.Kinds).Draw(t, "kind")
		if i == 0 && (kind == Child || kind == Remove) {
			kind = Set
		}
		if kind == Reattach && g.D14Open {
			c.ExclD14++
			kind = SetChild
		}
		op := Op{Kind: kind, Idx: -1}
		if pooling > 0 && rapid.IntRange(0, 9).Draw(t, "viahandle") < 4 {
			op.H = rapid.IntRange(1, 6).Draw(t, "h")
		}
		if kind == Child || kind == SetChild {
			pooling++
		}
		pool := &used
		if op.H > 0 {
			pool = &usedVia
		}
		var drainAddr Addr
		if kind != Merge {
			var a Addr
			switch {
			case kind == Remove && op.H == 0 && len(g.ListNames) > 0 && rapid.IntRange(0, 9).Draw(t, "movebias") < g.MoveBias:
				a = Addr{rapid.SampledFrom(g.ListNames).Draw(t, "rmlist"), rapid.IntRange(0, 2).Draw(t, "rmidx")}
				if c.PathSep && rapid.Bool().Draw(t, "rmdotted") {
					a = Addr{a.Name + "." + strconv.Itoa(a.Idx), -1}
				}
			case (kind == Set || kind == SetChild || kind == Reattach) && (len(*pool) == 0 || rapid.IntRange(0, 9).Draw(t, "fresh") < 6):
				a = GenAddr(t, g, "")
			case len(*pool) > 0 && rapid.IntRange(0, 9).Draw(t, "rel") < 7:
				a = related(t, g, *pool, "", kind == Child)
			default:
				a = GenAddr(t, g, "")
			}
			op.Name, op.Idx = a.Name, a.Idx
			drainAddr = a
			if kind == Set || kind == SetChild || kind == Reattach {
				*pool = append(*pool, a)
			}
			if g.Respell > 0 {
				sp := spell(t, g, a, c.PathSep, "")
				op.Name, op.Idx = sp.Name, sp.Idx
			}
			if g.OverIdx > 0 {
				switch x := rapid.IntRange(0, 39).Draw(t, "overidx"); {
				case (kind == Set || kind == SetChild) && x < 2*g.OverIdx:
					boundaryWrite(t, g, &op)
				case (kind == Remove || kind == Child) && x < g.OverIdx:
					m := rapid.SampledFrom(smallMax).Draw(t, "opmaxidx")
					op.MaxIdx = &m
				}
			}
		}
		noFold := false // the tree is kept as drawn (a list of objects with the same keys for the struct representations)
		dotted := g.Dotted > 0 && c.PathSep && (kind == SetChild || kind == Merge) && rapid.IntRange(0, 9).Draw(t, "dotted") < g.Dotted
		switch kind {
		case Set:
			op.Val = gen.GenTree(t, g.Prims, 0)
		case SetChild:
			op.Val = genTop(t, g.Trees, g.Trees.Depth-1)
			if dotted {
				// deep enough to have structure that can be spelled in the keys
				if len(g.ListNames) > 0 && rapid.Bool().Draw(t, "childlisty") {
					op.Val = nestUnder(rapid.SampledFrom(g.ListNames).Draw(t, "childlistname"), gen.GenList(t, g.Trees, 1))
				} else {
					op.Val = gen.GenObj(t, g.Trees, g.Trees.Depth)
				}
			}
		case Merge:
			op.Val = genTop(t, g.Trees, g.Trees.Depth)
			if len(g.ListNames) > 0 && rapid.IntRange(0, 9).Draw(t, "listy") < 5 {
				op.Val = nestUnder(rapid.SampledFrom(g.ListNames).Draw(t, "listname"), gen.GenList(t, g.Trees, 1))
			}
			op.Policy = rapid.SampledFrom(g.Policies).Draw(t, "policy")
			if g.Sources > 0 && rapid.IntRange(0, 9).Draw(t, "othersource") < g.Sources {
				switch x := rapid.IntRange(0, 9).Draw(t, "source"); {
				case x < 2:
					op.From = FromRepr
					assignReprs(t, op.Val)
				case x < 5 || pooling == 0:
					op.From = FromConfig
					if rapid.IntRange(0, 3).Draw(t, "srctree") > 0 {
						op.Val = genSourceTree(t, g)
					}
					pooling++
				case x < 8:
					op.From = FromHandle
					op.Val = nil
					op.Src = rapid.IntRange(0, 6).Draw(t, "src")
				default:
					op.From = FromEmbed
					op.Val = nil
					op.Src = rapid.IntRange(0, 6).Draw(t, "src")
					a := GenAddr(t, g, "embed")
					if len(used) > 0 && rapid.Bool().Draw(t, "embedrel") {
						a = related(t, g, used, "embed", false)
					}
					if rapid.IntRange(0, 4).Draw(t, "embedlist") == 0 {
						a.Name = "" // as an element of a top-level list
					}
					op.Name = a.Name
					if a.Name != "" && op.H == 0 {
						used = append(used, Addr{a.Name, -1})
					} else if a.Name != "" {
						usedVia = append(usedVia, Addr{a.Name, -1})
					}
					op.Name = respellName(t, g, op.Name, c.PathSep, "embed")
				}
			}
			if g.Structs > 0 && op.From == FromData && rapid.IntRange(0, 9).Draw(t, "structs") < g.Structs {
				op.From = FromStruct
				if rapid.Bool().Draw(t, "structtree") {
					op.Val = structTree(t, g)
					noFold = true
				}
			}
			if g.BadMerge > 0 && op.From == FromData && rapid.IntRange(0, 19).Draw(t, "badmerge") < g.BadMerge {
				op.Fault = rapid.IntRange(1, 12).Draw(t, "fault")
			}
			if g.Sources > 0 && op.Val != nil {
				// steer later operations to what this merge brings in: through the receiver
				// and, if the source stays in the case, through the source
				if as := treeAddrs(op.Val); len(as) > 0 {
					for k := rapid.IntRange(1, 3).Draw(t, "steer"); k > 0; k-- {
						a := rapid.SampledFrom(as).Draw(t, "steeraddr")
						if op.H == 0 {
							used = append(used, a)
						}
						if op.H > 0 || op.From == FromConfig {
							usedVia = append(usedVia, a)
						}
					}
				}
			}
		case Reattach:
			op.Src = rapid.IntRange(0, 5).Draw(t, "src")
		}
		if kind == SetChild && g.Structs > 0 && rapid.IntRange(0, 9).Draw(t, "childstructs") < g.Structs {
			op.From = FromStruct
			if rapid.Bool().Draw(t, "childstructtree") {
				op.Val = structTree(t, g)
				noFold = true
			}
		}
		if dotted && !noFold && op.Val != nil && op.Val.IsCont() {
			op.Val = FoldKeys(t, op.Val, g.Respell, "")
		}
		respellKeys(t, g, op.Val)
		if op.From == FromStruct {
			assignStructReprs(t, op.Val)
		}
		c.Ops = append(c.Ops, op)
		if kind == Remove && g.Drain > 0 {
			if list, idx, ok := listOf(drainAddr, c.PathSep); ok && rapid.IntRange(0, 9).Draw(t, "drain") < g.Drain {
				for k := rapid.IntRange(1, 3).Draw(t, "drains"); k > 0; k-- {
					more := Op{Kind: Remove, H: op.H, Name: list, Idx: 0}
					if idx > 0 && rapid.IntRange(0, 2).Draw(t, "drainsame") == 0 {
						more.Idx = idx
					}
					if g.Respell > 0 {
						sp := spell(t, g, more.Addr(), c.PathSep, "drain")
						more.Name, more.Idx = sp.Name, sp.Idx
					}
					c.Ops = append(c.Ops, more)
				}
				if op.H == 0 {
					used = append(used, Addr{list, 0})
				} else {
					usedVia = append(usedVia, Addr{list, 0})
				}
			}
		}
	}
	initStructs := g.Structs > 0 && c.Init != nil && rapid.IntRange(0, 9).Draw(t, "initstructs") < g.Structs
	if initStructs && rapid.IntRange(0, 2).Draw(t, "initstructlist") == 0 {
		// (before the keys are respelled: two keys of one object never denote the same setting)
		c.Init.Put(rapid.SampledFrom(g.Trees.Keys).Draw(t, "initstructname"), genStructList(t, g))
	}
	if g.Dotted > 0 && c.PathSep && c.Init != nil && rapid.IntRange(0, 9).Draw(t, "initdotted") < g.Dotted {
		c.Init = FoldKeys(t, c.Init, g.Respell, "init")
	}
	respellKeys(t, g, c.Init)
	if initStructs {
		c.InitRepr = true
		assignStructReprs(t, c.Init)
	}
	all := append(append([]Addr{}, used...), usedVia...)
	for i := 0; i < g.NReads; i++ {
		label := "read" + strconv.Itoa(i)
		var a Addr
		if len(all) > 0 && rapid.IntRange(0, 9).Draw(t, label+"rel") < 7 {
			a = related(t, g, all, label, false)
		} else {
			a = GenAddr(t, g, label)
		}
		if g.Respell > 0 {
			a = spell(t, g, a, c.PathSep, label)
		}
		c.Reads = append(c.Reads, a)
	}
	if c.PathSep && len(g.Seps) > 0 {
		if sep := rapid.SampledFrom(g.Seps).Draw(t, "sep"); sep != "." {
			c.Sep = sep
			for i := range c.Ops {
				c.Ops[i].Name = strings.ReplaceAll(c.Ops[i].Name, ".", sep)
			}
			for i := range c.Reads {
				c.Reads[i].Name = strings.ReplaceAll(c.Reads[i].Name, ".", sep)
			}
			if g.Dotted > 0 {
				replaceSepInKeys(c.Init, sep)
				for i := range c.Ops {
					replaceSepInKeys(c.Ops[i].Val, sep)
				}
			}
		}
	}
	return c
}

// spell rewrites an address without changing what it denotes: index segments
// of the name in another integer syntax, and sometimes the explicit index as a
// last segment of the name (with a path separator, or when there is no name).
func spell(t *rapid.T, g *GenCfg, a Addr, pathSep bool, label string) Addr {
	a.Name = respellName(t, g, a.Name, pathSep, label)
	if a.Idx >= 0 && (pathSep || a.Name == "") && rapid.IntRange(0, 9).Draw(t, label+"idxasname") < 2 {
		seg := rapid.SampledFrom(model.IndexSpellings(a.Idx)).Draw(t, label+"idxspelling")
		if a.Name == "" {
			return Addr{seg, -1}
		}
		return Addr{a.Name + "." + seg, -1}
	}
	return a
}
