// Package vx holds the reference model of variable expansion (model (iv) of
// DESIGN.md): an AST for ${...} expressions that the generator owns (so the
// model never parses), a renderer to the library's syntax, and an evaluator
// with layered lookup (own tree -> Env configs last-first -> resolvers
// last-first), an explicit stack of references under evaluation, and the
// operator semantics of the property statement. The documented re-parse of
// substituted text is delegated to the real parse.ValueWithConfig (that
// parser is the subject of C17, not of C02/C08).
package vx

import (
	"errors"
	"fmt"
	"sort"
	"strconv"
	"strings"

	"github.com/elastic/go-ucfg/parse"
	"pgregory.net/rapid"
)

// Part is a piece of an expression: literal text or a ${...} variable.
type Part struct {
	Lit   string `json:"lit,omitempty"`
	IsVar bool   `json:"var,omitempty"`
	Name  []Part `json:"name,omitempty"`
	Op    string `json:"op,omitempty"` // "", ":", ":+", ":?"
	Right []Part `json:"right,omitempty"`
}

// Node is a setting tree whose string leaves may be expressions.
type Node struct {
	K    string   `json:"k"` // nil bool uint int float str expr obj list
	B    bool     `json:"b,omitempty"`
	U    uint64   `json:"u,omitempty"`
	I    int64    `json:"i,omitempty"`
	F    float64  `json:"f,omitempty"`
	S    string   `json:"s,omitempty"`
	Expr []Part   `json:"expr,omitempty"`
	Keys []string `json:"keys,omitempty"`
	Vals []*Node  `json:"vals,omitempty"`
}

// KV is an ordered key/value pair (resolver tables).
type KV struct {
	K string `json:"k"`
	V string `json:"v"`
	// C selects the parse.Config the resolver returns with the value: 0 DefaultConfig, 1 NoopConfig (the value is
	// taken as it is: no lists, objects, quotes; commas are ordinary characters), 2 EnvConfig (no objects)
	C int `json:"c,omitempty"`
}

func (n *Node) Get(k string) *Node {
	for i, e := range n.Keys {
		if e == k {
			return n.Vals[i]
		}
	}
	return nil
}

func (n *Node) Put(k string, v *Node) {
	for i, e := range n.Keys {
		if e == k {
			n.Vals[i] = v
			return
		}
	}
	n.Keys = append(n.Keys, k)
	n.Vals = append(n.Vals, v)
}

func (n *Node) Clone() *Node {
	if n == nil {
		return nil
	}
	c := *n
	c.Keys = append([]string(nil), n.Keys...)
	c.Vals = nil
	for _, v := range n.Vals {
		c.Vals = append(c.Vals, v.Clone())
	}
	return &c
}

// Render renders expression parts in the library's syntax: `$` is escaped as
// `$$`, and inside braces `}` as `$}`.
func Render(ps []Part, inVar bool) string {
	var b strings.Builder
	for _, p := range ps {
		if !p.IsVar {
			s := strings.ReplaceAll(p.Lit, "$", "$$")
			if inVar {
				s = strings.ReplaceAll(s, "}", "$}")
			}
			b.WriteString(s)
			continue
		}
		b.WriteString("${")
		b.WriteString(Render(p.Name, true))
		if p.Op != "" {
			b.WriteString(p.Op)
			b.WriteString(Render(p.Right, true))
		}
		b.WriteString("}")
	}
	return b.String()
}

// Go materialises the tree as generic Go data; expressions become their
// rendered strings.
func (n *Node) Go() interface{} {
	switch n.K {
	case "nil":
		return nil
	case "bool":
		return n.B
	case "uint":
		return n.U
	case "int":
		return n.I
	case "float":
		return n.F
	case "str":
		return n.S
	case "expr":
		return Render(n.Expr, false)
	case "obj":
		m := make(map[string]interface{}, len(n.Keys))
		for i, k := range n.Keys {
			m[k] = n.Vals[i].Go()
		}
		return m
	case "list":
		a := make([]interface{}, 0, len(n.Vals))
		for _, v := range n.Vals {
			a = append(a, v.Go())
		}
		return a
	}
	panic("vx: bad node kind " + n.K)
}

// HasExprWith reports whether any expression in the tree satisfies pred.
func (n *Node) AnyPart(pred func(p *Part) bool) bool {
	var parts func(ps []Part) bool
	parts = func(ps []Part) bool {
		for i := range ps {
			if pred(&ps[i]) || parts(ps[i].Name) || parts(ps[i].Right) {
				return true
			}
		}
		return false
	}
	if n.K == "expr" && parts(n.Expr) {
		return true
	}
	for _, v := range n.Vals {
		if v.AnyPart(pred) {
			return true
		}
	}
	return false
}

// ---------------------------------------------------------------------------
// model

// World is what a read sees: the owning root, the Env configs and the
// resolver tables, in the order they were added.
// sep is the path separator of the world (default ".").
func (w *World) sep() string {
	if w.Sep == "" {
		return "."
	}
	return w.Sep
}

type World struct {
	// Sep: the path separator the configurations were built with ("" = ".")
	Sep string
	Root      *Node
	Envs      []*Node
	Resolvers [][]KV

	stack []string
	// home is the tree the expression being evaluated lives in (nil: Root). A value found in an Env config is
	// evaluated with that Env config as home: its own references are looked up there first.
	home *Node
	// observations of the last evaluation
	SawCycle     bool // a reference was re-entered (absorbed or not)
	FromEnv      bool // a name was found in an Env config
	FromResolver bool // a name was provided by a resolver
	LeftUnset    bool // an operator's left side was unset or empty
	Shadowed     bool // a name found in one layer also exists in a later-consulted layer
	// a plain reference whose NAME is computed from other references and contains the separator was evaluated
	// (such a name is split when it is read, all other names when the string is merged)
	ComputedDotted bool
	// an operator replaced a failure after a reference had been re-entered (the re-entry may be what it absorbed)
	Swallowed bool
	// a name led through a setting that is an expression itself (the model does not look into its value)
	ThroughExpr bool
	Absorbed     bool           // a re-entry was absorbed: a resolver knew the active name, or an operator swallowed the failure
	Uses         map[string]int // how often each name was dereferenced during the last evaluation
}

func (w *World) use(name string) {
	if w.Uses == nil {
		w.Uses = map[string]int{}
	}
	w.Uses[name]++
}

// Repeated reports whether some name was dereferenced more than once during
// the last evaluation (repeated use in one string, or a diamond).
func (w *World) Repeated() bool {
	for _, n := range w.Uses {
		if n > 1 {
			return true
		}
	}
	return false
}

var (
	ErrCyclic   = errors.New("model: cyclic reference")
	ErrMissing  = errors.New("model: missing")
	ErrMismatch = errors.New("model: type mismatch")
	errMulti    = errors.New("model: several different failures")
)

// ErrMsg is the failure of ${x:?msg}.
type ErrMsg struct{ Msg string }

func (e *ErrMsg) Error() string { return "model: error operator: " + e.Msg }

func (w *World) Reset() {
	w.stack = nil
	w.home = nil
	w.SawCycle, w.FromEnv, w.FromResolver, w.LeftUnset, w.Shadowed = false, false, false, false, false
	w.Uses = nil
	w.Absorbed = false
	w.ComputedDotted = false
	w.Swallowed = false
	w.ThroughExpr = false
}

func lookupIn(tree *Node, name string) (*Node, bool) {
	v, ok, _ := lookupInX(tree, name)
	return v, ok
}

// lookupInX also reports whether the walk met an expression before the last segment: the library evaluates it
// and continues in its value (or fails with the expression's failure), which the model does not follow.
func lookupInX(tree *Node, name string) (*Node, bool, bool) { return lookupInSep(tree, name, ".") }

func lookupInSep(tree *Node, name, sep string) (*Node, bool, bool) {
	v, ok := lookupIn0(tree, name, sep)
	return v, ok, !ok && throughExpr(tree, name, sep)
}

func throughExpr(tree *Node, name, sep string) bool {
	cur := tree
	for _, seg := range strings.Split(name, sep) {
		switch cur.K {
		case "obj":
			v := cur.Get(seg)
			if v == nil {
				return false
			}
			cur = v
		case "list":
			i, err := strconv.Atoi(seg)
			if err != nil || i < 0 || i >= len(cur.Vals) {
				return false
			}
			cur = cur.Vals[i]
		case "expr":
			return true
		default:
			return false
		}
	}
	return false
}

func lookupIn0(tree *Node, name, sep string) (*Node, bool) {
	cur := tree
	for _, seg := range strings.Split(name, sep) {
		switch cur.K {
		case "obj":
			v := cur.Get(seg)
			if v == nil {
				return nil, false
			}
			cur = v
		case "list":
			i, err := strconv.Atoi(seg)
			if err != nil || i < 0 || i >= len(cur.Vals) || strconv.Itoa(i) != seg {
				return nil, false
			}
			cur = cur.Vals[i]
		default:
			return nil, false
		}
	}
	return cur, true
}

func (w *World) inResolvers(name string) bool {
	for _, r := range w.Resolvers {
		for _, kv := range r {
			if kv.K == name {
				return true
			}
		}
	}
	return false
}

// lookup finds name in the home tree of the expression being evaluated, then in the Env configs (most recently
// added first). It also returns the tree the value was found in.
func (w *World) lookup(name string) (*Node, *Node, bool) {
	first := w.Root
	if w.home != nil {
		first = w.home
	}
	v, ok, through := lookupInSep(first, name, w.sep())
	if through {
		w.ThroughExpr = true
	}
	if ok {
		for _, e := range w.Envs {
			if e != first {
				if _, ok, _ := lookupInSep(e, name, w.sep()); ok {
					w.Shadowed = true
				}
			}
		}
		if w.inResolvers(name) {
			w.Shadowed = true
		}
		if first != w.Root {
			w.FromEnv = true
		}
		return v, first, true
	}
	for i := len(w.Envs) - 1; i >= 0; i-- {
		v, ok, through := lookupInSep(w.Envs[i], name, w.sep())
		if through {
			w.ThroughExpr = true
		}
		if ok {
			w.FromEnv = true
			for j := 0; j < i; j++ {
				if _, ok, _ := lookupInSep(w.Envs[j], name, w.sep()); ok {
					w.Shadowed = true
				}
			}
			if w.inResolvers(name) {
				w.Shadowed = true
			}
			return v, w.Envs[i], true
		}
	}
	return nil, nil, false
}

// at runs f with home as the tree of the expression being evaluated.
func (w *World) at(home *Node, f func()) {
	prev := w.home
	w.home = home
	f()
	w.home = prev
}

func (w *World) resolver(name string) (string, bool) {
	s, _, ok := w.resolverCfg(name)
	return s, ok
}

// ParseCfg is the parse.Config a resolver table entry returns.
func ParseCfg(c int) parse.Config {
	switch c {
	case 1:
		return parse.NoopConfig
	case 2:
		return parse.EnvConfig
	}
	return parse.DefaultConfig
}

func (w *World) resolverCfg(name string) (string, parse.Config, bool) {
	for i := len(w.Resolvers) - 1; i >= 0; i-- {
		for _, kv := range w.Resolvers[i] {
			if kv.K == name {
				w.FromResolver = true
				for j := 0; j < i; j++ {
					for _, o := range w.Resolvers[j] {
						if o.K == name {
							w.Shadowed = true
						}
					}
				}
				return kv.V, ParseCfg(kv.C), true
			}
		}
	}
	return "", parse.DefaultConfig, false
}

func (w *World) active(name string) bool {
	for _, s := range w.stack {
		if s == name {
			w.SawCycle = true
			return true
		}
	}
	return false
}

func primToString(v interface{}) (string, error) {
	switch x := v.(type) {
	case nil:
		return "null", nil
	case bool:
		return fmt.Sprintf("%t", x), nil
	case int64:
		return fmt.Sprintf("%d", x), nil
	case uint64:
		return fmt.Sprintf("%d", x), nil
	case int:
		return fmt.Sprintf("%d", x), nil
	case float64:
		return fmt.Sprintf("%v", x), nil
	case string:
		return x, nil
	}
	return "", ErrMismatch
}

// ParseText is the documented re-interpretation of substituted text.
func ParseText(text string) (interface{}, error) { return ParseTextCfg(text, parse.DefaultConfig) }

// ParseTextCfg is ParseText under the parse.Config a resolver returned with the text.
func ParseTextCfg(text string, cfg parse.Config) (interface{}, error) {
	v, err := parse.ValueWithConfig(text, cfg)
	if err != nil {
		return nil, err
	}
	if v == nil && strings.TrimSpace(text) == "" {
		return text, nil
	}
	return v, nil
}

// refEval is the value of ${name} inside a larger string.
func (w *World) refEval(name string) (string, error) {
	w.use(name)
	if w.active(name) {
		if s, ok := w.resolver(name); ok {
			w.Absorbed = true
			if s == "" {
				return "", ErrMissing
			}
			return s, nil
		}
		return "", ErrCyclic
	}
	w.stack = append(w.stack, name)
	defer func() { w.stack = w.stack[:len(w.stack)-1] }()
	if v, home, ok := w.lookup(name); ok {
		var str string
		var err error
		w.at(home, func() { str, err = w.evalToString(v) })
		return str, err
	}
	if s, ok := w.resolver(name); ok {
		if s == "" {
			return "", ErrMissing
		}
		return s, nil
	}
	return "", ErrMissing
}

// DirectName reports whether the expression is exactly one plain reference ${name}.
func DirectName(ps []Part) (string, bool) {
	if len(ps) == 1 && ps[0].IsVar && ps[0].Op == "" && len(ps[0].Name) == 1 && !ps[0].Name[0].IsVar {
		return ps[0].Name[0].Lit, true
	}
	return "", false
}

func (n *Node) prim() interface{} {
	switch n.K {
	case "nil":
		return nil
	case "bool":
		return n.B
	case "uint":
		return n.U
	case "int":
		return n.I
	case "float":
		return n.F
	case "str":
		return n.S
	}
	panic("vx: not a primitive " + n.K)
}

// evalToString: containers are a type mismatch without being evaluated, a
// setting that is exactly one reference is followed, other expressions are
// evaluated, re-parsed and rendered.
func (w *World) evalToString(n *Node) (string, error) {
	switch n.K {
	case "obj", "list":
		return "", ErrMismatch
	case "expr":
		if name, ok := DirectName(n.Expr); ok {
			fromResolver := func() (string, error, bool) {
				if s, pc, ok := w.resolverCfg(name); ok {
					pv, err := ParseTextCfg(s, pc)
					if err != nil {
						return "", err, true
					}
					str, err := primToString(pv)
					return str, err, true
				}
				return "", nil, false
			}
			w.use(name)
			if w.active(name) {
				if str, err, ok := fromResolver(); ok {
					w.Absorbed = true
					return str, err
				}
				return "", ErrCyclic
			}
			w.stack = append(w.stack, name)
			defer func() { w.stack = w.stack[:len(w.stack)-1] }()
			if rv, home, ok := w.lookup(name); ok {
				var str string
				var err error
				w.at(home, func() { str, err = w.evalToString(rv) })
				return str, err
			}
			if str, err, ok := fromResolver(); ok {
				return str, err
			}
			return "", ErrMissing
		}
		text, err := w.evalParts(n.Expr)
		if err != nil {
			return "", err
		}
		pv, err := ParseText(text)
		if err != nil {
			return "", err
		}
		return primToString(pv)
	}
	return primToString(n.prim())
}

// EvalString is the model of the String getter on a setting.
func (w *World) EvalString(n *Node) (string, error) { return w.evalToString(n) }

func (w *World) refFound(name string) bool {
	if !w.active(name) {
		if _, _, ok := w.lookup(name); ok {
			return true
		}
	}
	s, ok := w.resolver(name)
	return ok && s != ""
}

func (w *World) evalParts(ps []Part) (string, error) {
	var b strings.Builder
	for _, p := range ps {
		if !p.IsVar {
			b.WriteString(p.Lit)
			continue
		}
		s, err := w.evalVar(p)
		if err != nil {
			return "", err
		}
		b.WriteString(s)
	}
	return b.String(), nil
}

// swallow notes that an operator replaced a failure; if a reference had been
// re-entered before, that re-entry may be what it absorbed.
func (w *World) swallow() {
	if w.SawCycle {
		w.Absorbed = true
		w.Swallowed = true
	}
}

func (w *World) evalVar(p Part) (string, error) {
	name, nerr := w.evalParts(p.Name)
	switch p.Op {
	case "":
		if nerr != nil {
			return "", nerr
		}
		if !(len(p.Name) == 1 && !p.Name[0].IsVar) && strings.Contains(name, w.sep()) {
			w.ComputedDotted = true
		}
		return w.refEval(name)
	case ":":
		if nerr != nil || name == "" {
			w.LeftUnset = true
			w.swallow()
			return w.evalParts(p.Right)
		}
		s, err := w.refEval(name)
		if err != nil || s == "" {
			w.LeftUnset = true
			w.swallow()
			return w.evalParts(p.Right)
		}
		return s, nil
	case ":+":
		if nerr != nil || name == "" {
			w.LeftUnset = true
			w.swallow()
			return "", nil
		}
		if !w.refFound(name) {
			w.LeftUnset = true
			w.swallow()
			return "", nil
		}
		return w.evalParts(p.Right)
	case ":?":
		if nerr == nil && name != "" {
			s, err := w.refEval(name)
			if err == nil && s != "" {
				return s, nil
			}
		}
		w.swallow()
		w.LeftUnset = true
		msg, err := w.evalParts(p.Right)
		if err != nil {
			return "", err
		}
		return "", &ErrMsg{msg}
	}
	panic("vx: bad operator " + p.Op)
}

func joinErrs(errs []error) error {
	first := errs[0]
	for _, e := range errs[1:] {
		if e == first {
			continue
		}
		m1, ok1 := first.(*ErrMsg)
		m2, ok2 := e.(*ErrMsg)
		if ok1 && ok2 {
			if m1.Msg != m2.Msg {
				first = &ErrMsg{""} // which message is reported is unordered
			}
			continue
		}
		return errMulti
	}
	return first
}

// Eval is the model of unpacking a setting into interface{}: the evaluated
// generic value. When several fields of an object fail, which failure is
// reported is unordered; the model evaluates in key order and reports a
// specific kind only if all failures agree.
func (w *World) Eval(n *Node) (interface{}, error) {
	switch n.K {
	case "obj":
		out := map[string]interface{}{}
		var errs []error
		keys := append([]string(nil), n.Keys...)
		sort.Strings(keys)
		for _, k := range keys {
			ev, err := w.Eval(n.Get(k))
			if err != nil {
				errs = append(errs, err)
				continue
			}
			out[k] = ev
		}
		if len(errs) > 0 {
			return nil, joinErrs(errs)
		}
		return out, nil
	case "list":
		out := []interface{}{}
		var errs []error
		for _, e := range n.Vals {
			ev, err := w.Eval(e)
			if err != nil {
				errs = append(errs, err)
				continue
			}
			out = append(out, ev)
		}
		if len(errs) > 0 {
			return nil, joinErrs(errs)
		}
		return out, nil
	case "expr":
		if name, ok := DirectName(n.Expr); ok {
			fromResolver := func() (interface{}, error, bool) {
				if s, pc, ok := w.resolverCfg(name); ok {
					pv, err := ParseTextCfg(s, pc)
					return pv, err, true
				}
				return nil, nil, false
			}
			w.use(name)
			if w.active(name) {
				if pv, err, ok := fromResolver(); ok {
					w.Absorbed = true
					return pv, err
				}
				return nil, ErrCyclic
			}
			w.stack = append(w.stack, name)
			defer func() { w.stack = w.stack[:len(w.stack)-1] }()
			if rv, home, ok := w.lookup(name); ok {
				var val interface{}
				var err error
				w.at(home, func() { val, err = w.Eval(rv) })
				return val, err
			}
			if pv, err, ok := fromResolver(); ok {
				return pv, err
			}
			return nil, ErrMissing
		}
		text, err := w.evalParts(n.Expr)
		if err != nil {
			return nil, err
		}
		return ParseText(text)
	}
	return n.prim(), nil
}

// HeadErr evaluates n only as far as walking a path THROUGH it requires: a chain of plain references is followed
// to the setting it ends at, whose members are not evaluated; spliced text is evaluated completely. It returns
// the failure of that shallow evaluation, if any.
func (w *World) HeadErr(n *Node) error {
	if n.K != "expr" {
		return nil
	}
	name, ok := DirectName(n.Expr)
	if !ok {
		_, err := w.evalParts(n.Expr)
		return err
	}
	w.use(name)
	if w.active(name) {
		if _, ok := w.resolver(name); ok {
			w.Absorbed = true
			return nil
		}
		return ErrCyclic
	}
	w.stack = append(w.stack, name)
	defer func() { w.stack = w.stack[:len(w.stack)-1] }()
	if rv, home, ok := w.lookup(name); ok {
		var err error
		w.at(home, func() { err = w.HeadErr(rv) })
		return err
	}
	if _, ok := w.resolver(name); ok {
		return nil
	}
	return ErrMissing
}

// ---------------------------------------------------------------------------
// generators

// Names is the pool of reference names: own settings (top level and nested),
// names that exist only in Env configs (e1, e2), only in resolvers (r1, r2),
// in several layers (both, a, zz, o.x) or nowhere (zz when not drawn).
var Names = []string{"a", "b", "c", "d", "o", "o.x", "o.y", "l", "l.0", "l.1", "zz", "e1", "e2", "both", "r1", "r2", "p.x.y", "e2.p.q"}

// OwnNames are names of the own tree only (reference graphs with many cycles).
var OwnNames = []string{"a", "b", "c", "d", "o", "o.x", "o.y", "l", "l.0", "l.1", "a", "b"}

var lits = []string{"x", "yz", "1", "0", "-", " ", ",", "", "t", "$", "}", "7", "e", ".", "$$", "${"}

// GCfg steers the expression generator.
type GCfg struct {
	Depth    int
	Names    []string
	NoDollar bool // no '$' in literals (finding D27 open)
	EnvExprs bool // Env configs may hold expressions
	// Sep: the path separator of the case ("" = "."): every name the generator writes uses it
	Sep string
	// ResolverCfgs: resolvers return NoopConfig / EnvConfig with some values (a keystore hands out raw text)
	ResolverCfgs bool
}

// nm spells a name (given with ".") with the separator of the case.
func (g *GCfg) nm(name string) string {
	if g.Sep == "" || g.Sep == "." {
		return name
	}
	return strings.ReplaceAll(name, ".", g.Sep)
}

func (g *GCfg) lit(t *rapid.T) string {
	for {
		s := rapid.SampledFrom(lits).Draw(t, "lit")
		if g.NoDollar && strings.Contains(s, "$") {
			continue
		}
		return s
	}
}

func normParts(ps []Part) []Part {
	var out []Part
	for _, p := range ps {
		if !p.IsVar && len(out) > 0 && !out[len(out)-1].IsVar {
			out[len(out)-1].Lit += p.Lit
		} else {
			out = append(out, p)
		}
	}
	var out2 []Part
	for _, p := range out {
		if p.IsVar || p.Lit != "" {
			out2 = append(out2, p)
		}
	}
	return out2
}

func (g *GCfg) GenParts(t *rapid.T, depth int, inName bool) []Part {
	n := rapid.IntRange(1, 3).Draw(t, "nparts")
	var ps []Part
	for i := 0; i < n; i++ {
		if depth > 0 && rapid.IntRange(0, 2).Draw(t, "isvar") > 0 {
			ps = append(ps, g.GenVar(t, depth-1))
		} else if inName {
			ps = append(ps, Part{Lit: g.nm(rapid.SampledFrom(g.Names).Draw(t, "nm"))})
		} else {
			ps = append(ps, Part{Lit: g.lit(t)})
		}
	}
	return normParts(ps)
}

func (g *GCfg) GenVar(t *rapid.T, depth int) Part {
	p := Part{IsVar: true}
	if depth > 0 && rapid.IntRange(0, 5).Draw(t, "dynname") == 0 {
		p.Name = []Part{g.GenVar(t, depth-1)}
	} else {
		p.Name = []Part{{Lit: g.nm(rapid.SampledFrom(g.Names).Draw(t, "name"))}}
	}
	p.Op = rapid.SampledFrom([]string{"", "", "", ":", ":+", ":?"}).Draw(t, "op")
	if p.Op != "" {
		p.Right = g.GenParts(t, depth, false)
	}
	return p
}

var strLeaves = []string{"s", "", "a", "b", "o.x", "l.1", "12", "0x10", "true", "x,y", " p "}

// GenLeaf draws a leaf setting: a literal of any primitive kind, nil, or (if
// allowExpr) an expression that contains at least one variable.
func (g *GCfg) GenLeaf(t *rapid.T, allowExpr bool) *Node {
	k := rapid.IntRange(0, 9).Draw(t, "leafkind")
	if !allowExpr && k >= 5 {
		k -= 5
	}
	switch k {
	case 0:
		sl := rapid.SampledFrom(strLeaves).Draw(t, "str")
		if sl == "o.x" || sl == "l.1" {
			sl = g.nm(sl) // values that are used as names by ${${x}}
		}
		return &Node{K: "str", S: sl}
	case 1:
		return &Node{K: "uint", U: uint64(rapid.IntRange(0, 3).Draw(t, "u"))}
	case 2:
		return &Node{K: "bool", B: rapid.Bool().Draw(t, "b")}
	case 3:
		return &Node{K: "nil"}
	case 4:
		if rapid.Bool().Draw(t, "neg") {
			return &Node{K: "int", I: -2}
		}
		return &Node{K: "float", F: 1.5}
	}
	if rapid.IntRange(0, 11).Draw(t, "litonly") == 0 {
		// an expression without any reference: only the escapes matter ($$ is a literal $)
		s := rapid.SampledFrom([]string{"5$", "$", "a$b", "$$", "x$y$", "$ {a}", "$a"}).Draw(t, "litexpr")
		if !g.NoDollar {
			return &Node{K: "expr", Expr: []Part{{Lit: s}}}
		}
	}
	ps := g.GenParts(t, g.Depth, false)
	hasVar := false
	for _, p := range ps {
		if p.IsVar {
			hasVar = true
		}
	}
	if !hasVar {
		ps = normParts(append(ps, g.GenVar(t, 1)))
	}
	return &Node{K: "expr", Expr: ps}
}

// GenRoot draws the own tree: top-level settings a..d, an object o{x,y} and a
// list l[2].
func (g *GCfg) GenRoot(t *rapid.T) *Node {
	root := &Node{K: "obj"}
	for _, k := range []string{"a", "b", "c", "d"} {
		if rapid.IntRange(0, 4).Draw(t, "has"+k) > 0 {
			root.Put(k, g.GenLeaf(t, true))
		}
	}
	if rapid.IntRange(0, 2).Draw(t, "hasp") == 0 {
		// always a literal: a primitive at the first segment of the name p.x.y, which an Env config may hold
		root.Put("p", g.GenLeaf(t, false))
	}
	if rapid.Bool().Draw(t, "haso") {
		o := &Node{K: "obj"}
		o.Put("x", g.GenLeaf(t, true))
		o.Put("y", g.GenLeaf(t, true))
		root.Put("o", o)
	}
	if rapid.Bool().Draw(t, "hasl") {
		root.Put("l", &Node{K: "list", Vals: []*Node{g.GenLeaf(t, true), g.GenLeaf(t, true)}})
	}
	return root
}

// GenEnv draws an Env config. With EnvExprs some of its values are expressions themselves: they are evaluated
// with the Env config as their own tree (their references are looked up there first).
func (g *GCfg) GenEnv(t *rapid.T) *Node {
	e := &Node{K: "obj"}
	for _, k := range []string{"e1", "e2", "both", "a", "zz"} {
		if rapid.IntRange(0, 2).Draw(t, "envhas") == 0 {
			// (e2 stays a literal: the name e2.p.q leads through it, and lookups through evaluated values are not modelled)
			if g.EnvExprs && k != "e2" && rapid.IntRange(0, 2).Draw(t, "envexpr") == 0 {
				// references inside an Env config mostly name settings of Env configs
				eg := *g
				eg.Names = []string{"a", "e1", "e2", "both", "zz", "a", "e1", "b", "r1"}
				e.Put(k, eg.GenLeaf(t, true))
				continue
			}
			e.Put(k, g.GenLeaf(t, false))
		}
	}
	// names of three segments: the own tree (or an Env config added later) may hold a primitive at the first
	// segment, which must not stop the search through the remaining layers
	if rapid.IntRange(0, 2).Draw(t, "envdeep") == 0 {
		k, a, b := "p", "x", "y"
		if rapid.Bool().Draw(t, "envdeepkey") {
			k, a, b = "e2", "p", "q"
		}
		inner := &Node{K: "obj"}
		inner.Put(b, g.GenLeaf(t, false))
		mid := &Node{K: "obj"}
		mid.Put(a, inner)
		e.Put(k, mid)
	}
	return e
}

// Lighten bounds the work a case can cause. References are evaluated without a memo (the result depends on which
// references are active), so a read costs about (number of expression settings)! x the product of their
// reference counts when the settings refer to each other: a heavy tail of cases that finish only after minutes.
// While that weight exceeds limit the expression with the most references becomes a literal. It returns how many
// expressions were replaced.
func Lighten(limit float64, trees ...*Node) int {
	var exprs []*Node
	var walk func(n *Node)
	walk = func(n *Node) {
		if n == nil {
			return
		}
		if n.K == "expr" {
			exprs = append(exprs, n)
		}
		for _, c := range n.Vals {
			walk(c)
		}
	}
	for _, t := range trees {
		walk(t)
	}
	count := func(n *Node) int {
		k := 0
		n.AnyPart(func(p *Part) bool {
			if p.IsVar {
				k++
			}
			return false
		})
		return k
	}
	replaced := 0
	for {
		weight, live, heaviest, max := 1.0, 0, -1, 0
		for i, e := range exprs {
			if e.K != "expr" {
				continue
			}
			c := count(e)
			if c == 0 {
				continue
			}
			live++
			weight *= float64(c) * float64(live)
			if c > max {
				heaviest, max = i, c
			}
		}
		if weight <= limit || heaviest < 0 {
			return replaced
		}
		*exprs[heaviest] = Node{K: "str", S: "s"}
		replaced++
	}
}

// GenEnvLayer draws settings that are merged into an Env config later on.
func (g *GCfg) GenEnvLayer(t *rapid.T) *Node {
	l := &Node{K: "obj"}
	for _, k := range []string{"e1", "both", "a", "zz"} {
		if rapid.IntRange(0, 2).Draw(t, "envredef") == 0 {
			if g.EnvExprs && rapid.IntRange(0, 2).Draw(t, "envexpr") == 0 {
				eg := *g
				eg.Names = []string{"a", "e1", "e2", "both", "zz", "a", "e1", "b", "r1"}
				l.Put(k, eg.GenLeaf(t, true))
				continue
			}
			l.Put(k, g.GenLeaf(t, false))
		}
	}
	return l
}

var resVals = []string{"rv", "5", "", "p,q", "true", " sp ", "{k: 1}", "-3", "1.5", "s3cr,et,[x]", "'q'", "a, b"}

// GenResolver draws a resolver table.
func (g *GCfg) GenResolver(t *rapid.T) []KV {
	var r []KV
	for _, k := range []string{"r1", "r2", "both", "a", "zz", "o.x"} {
		if rapid.IntRange(0, 2).Draw(t, "reshas") == 0 {
			kv := KV{K: g.nm(k), V: rapid.SampledFrom(resVals).Draw(t, "resval")}
			if g.ResolverCfgs {
				kv.C = rapid.SampledFrom([]int{0, 0, 1, 2}).Draw(t, "rescfg")
			}
			r = append(r, kv)
		}
	}
	return r
}
