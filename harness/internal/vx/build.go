package vx

import (
	"fmt"
	"strings"

	ucfg "github.com/elastic/go-ucfg"
	"github.com/elastic/go-ucfg/parse"
)

// Options builds the option list of a world: PathSep, VarExp, the Env configs
// and the resolvers, each in the order they were added.
func Options(envs []*Node, resolvers [][]KV) ([]ucfg.Option, error) {
	l, err := OptionsLive(envs, resolvers)
	if err != nil {
		return nil, err
	}
	return l.Opts, nil
}

// Live is an option list whose surroundings can change while the Option values stay the same (the way an
// application builds its options once): the Env configs can be merged into and the resolvers answer from
// Tables, which may be replaced.
type Live struct {
	Opts    []ucfg.Option // PathSep("."), VarExp, Env..., Resolve...
	EnvCfgs []*ucfg.Config
	Tables  [][]KV
	EnvOpts []ucfg.Option
	ResOpts []ucfg.Option
	Sep     string
}

// WithEnvOrder is the option list in which the Env options are given in the order (and as often as) order
// says: an Env config that is given again counts as added most recently.
func (l *Live) WithEnvOrder(order []int, noSep bool) []ucfg.Option {
	opts := []ucfg.Option{}
	if !noSep {
		opts = append(opts, ucfg.PathSep(l.Sep))
	}
	opts = append(opts, ucfg.VarExp)
	for _, i := range order {
		if i >= 0 && i < len(l.EnvOpts) {
			opts = append(opts, l.EnvOpts[i])
		}
	}
	return append(opts, l.ResOpts...)
}

// NoSep is the same list of Option values without the PathSep option.
func (l *Live) NoSep() []ucfg.Option { return l.Opts[1:] }

func OptionsLive(envs []*Node, resolvers [][]KV) (*Live, error) {
	return OptionsLiveSep(envs, resolvers, ".")
}

// OptionsLiveSep is OptionsLive for configurations whose path separator is sep.
func OptionsLiveSep(envs []*Node, resolvers [][]KV, sep string) (*Live, error) {
	if sep == "" {
		sep = "."
	}
	l := &Live{Sep: sep, Opts: []ucfg.Option{ucfg.PathSep(sep), ucfg.VarExp}}
	for _, e := range envs {
		ec, err := ucfg.NewFrom(e.Go(), ucfg.PathSep(sep), ucfg.VarExp)
		if err != nil {
			return nil, fmt.Errorf("building an Env config failed: %v", err)
		}
		l.EnvCfgs = append(l.EnvCfgs, ec)
		l.EnvOpts = append(l.EnvOpts, ucfg.Env(ec))
		l.Opts = append(l.Opts, l.EnvOpts[len(l.EnvOpts)-1])
	}
	l.Tables = append([][]KV(nil), resolvers...)
	for i := range resolvers {
		i := i
		l.ResOpts = append(l.ResOpts, ucfg.Resolve(func(name string) (string, parse.Config, error) {
			for _, kv := range l.Tables[i] {
				if kv.K == name {
					return kv.V, ParseCfg(kv.C), nil
				}
			}
			return "", parse.DefaultConfig, ucfg.ErrMissing
		}))
		l.Opts = append(l.Opts, l.ResOpts[len(l.ResOpts)-1])
	}
	return l, nil
}

// IsCyclic reports whether some level of the error's Reason chain is
// ErrCyclicReference (or says so).
func IsCyclic(err error) bool {
	for i := 0; err != nil && i < 20; i++ {
		if err == ucfg.ErrCyclicReference || strings.Contains(err.Error(), "cyclic reference") {
			return true
		}
		e, ok := err.(ucfg.Error)
		if !ok || e.Reason() == err {
			return false
		}
		err = e.Reason()
	}
	return false
}

// Typed checks that err is a ucfg.Error with Reason and Class.
func Typed(what string, err error) error {
	if err == nil {
		return nil
	}
	e, ok := err.(ucfg.Error)
	if !ok || e.Reason() == nil || e.Class() == nil {
		return fmt.Errorf("%s returned an untyped error %T: %v", what, err, err)
	}
	return nil
}

// MergeModel merges layer b into a the way a default Merge does, on setting
// trees: objects by key, lists index-wise, everything else replaced (a nil in
// b leaves a container of a in place).
func MergeModel(a, b *Node) *Node {
	if a == nil {
		return b.Clone()
	}
	aCont := a.K == "obj" || a.K == "list"
	if b.K == "nil" && aCont {
		return a
	}
	if a.K == "nil" && b.K == "nil" {
		// a nil counts as an empty container on both sides: the result is an empty object
		return &Node{K: "obj"}
	}
	if a.K == "obj" && b.K == "obj" {
		for i, k := range b.Keys {
			a.Put(k, MergeModel(a.Get(k), b.Vals[i]))
		}
		return a
	}
	if a.K == "list" && b.K == "list" {
		for i, v := range b.Vals {
			if i < len(a.Vals) {
				a.Vals[i] = MergeModel(a.Vals[i], v)
			} else {
				a.Vals = append(a.Vals, v.Clone())
			}
		}
		return a
	}
	return b.Clone()
}
