// verifctl is the driver of the go-ucfg verification harness.
//
//	verifctl check  <id> --tier quick|thorough   build from /repo's working tree, replay tier, known findings,
//	                                             sharded search, evidence, VIOLATION lines, exit code
//	verifctl replay <id> <case-file>             run one saved case, bypassing rapid
//
// Exit codes: 0 held on everything explored, 1 violation, 2 inconclusive
// (build failure, harness timeout, worker death that does not reproduce).
package main

import (
	"bytes"
	"encoding/binary"
	"encoding/json"
	"fmt"
	"os"
	"os/exec"
	"path/filepath"
	"sort"
	"strconv"
	"strings"
	"sync"
	"syscall"
	"time"
)

type propCfg struct {
	Race          bool
	QuickShards   int
	ThoroughShard int
	QuickBudget   time.Duration // harness deadline for the search phase
	ThoroughBudg  time.Duration
	Fuzz          []fuzzTarget // native fuzz campaigns (thorough only)
	Assumptions   []string
	// WatchdogS: CPU seconds one case may use before the worker gives up on it (0: the default of the worker).
	// Reference graphs are evaluated without a memo: rare generated graphs (about one in 10^6) finish only after
	// minutes, which is slow but no violation of "finishes"
	WatchdogS int
}

type fuzzTarget struct {
	Name string
	Secs int
}

var props = map[string]propCfg{}

func init() {
	for i := 1; i <= 20; i++ {
		id := fmt.Sprintf("C%02d", i)
		props[id] = propCfg{QuickShards: 4, ThoroughShard: 16, QuickBudget: 8 * time.Minute, ThoroughBudg: 90 * time.Minute}
	}
	c := props["C11"]
	c.Race = true
	props["C11"] = c
	for _, id := range []string{"C02", "C08", "C09"} {
		c := props[id]
		c.WatchdogS = 900
		props[id] = c
	}
	for id, fz := range map[string][]fuzzTarget{
		"C07": {{"FuzzParseValue", 120}, {"FuzzVarExp", 120}, {"FuzzYAML", 120}, {"FuzzJSONHJSON", 120}, {"FuzzPathOps", 120}},
		"C17": {{"FuzzJSONRoundTrip", 150}},
		"C18": {{"FuzzFrontEnds", 150}},
	} {
		c := props[id]
		c.Fuzz = fz
		props[id] = c
	}
}

var (
	verifRoot string
	repoPath  = "/repo"
)

func main() {
	if len(os.Args) < 3 {
		usage()
	}
	exe, _ := os.Executable()
	verifRoot = filepath.Dir(filepath.Dir(exe))
	if v := os.Getenv("VERIF_ROOT"); v != "" {
		verifRoot = v
	}
	if v := os.Getenv("VERIF_REPO"); v != "" {
		repoPath = v
	}
	switch os.Args[1] {
	case "check":
		id := os.Args[2]
		tier := "quick"
		for i := 3; i < len(os.Args); i++ {
			switch {
			case os.Args[i] == "--tier" && i+1 < len(os.Args):
				tier = os.Args[i+1]
				i++
			case strings.HasPrefix(os.Args[i], "--tier="):
				tier = strings.TrimPrefix(os.Args[i], "--tier=")
			}
		}
		if tier != "quick" && tier != "thorough" {
			usage()
		}
		os.Exit(check(id, tier))
	case "replay":
		if len(os.Args) < 4 {
			usage()
		}
		os.Exit(replayCmd(os.Args[2], os.Args[3]))
	default:
		usage()
	}
}

func usage() {
	fmt.Fprintln(os.Stderr, "usage: verifctl check <id> --tier quick|thorough | verifctl replay <id> <case-file>")
	os.Exit(2)
}

func goEnv() []string {
	env := []string{}
	for _, kv := range os.Environ() {
		k := strings.SplitN(kv, "=", 2)[0]
		switch k {
		case "GOFLAGS", "GOPROXY", "GOSUMDB", "GOTOOLCHAIN", "GOWORK":
			continue
		}
		env = append(env, kv)
	}
	return append(env, "GOFLAGS=-mod=mod", "GOPROXY=off", "GOSUMDB=off", "GOTOOLCHAIN=local", "GOWORK=off")
}

func pkgDir(id string) string { return "./props/" + strings.ToLower(id) }

// build compiles the property's test binary from the repository's current
// working tree (the replace directive points at it, so the go build cache is
// keyed on its contents).
func build(id, workDir string, race bool) (string, error) {
	bin := filepath.Join(workDir, "prop.test")
	args := []string{"test", "-c", "-tags", "verif", "-o", bin}
	harness := filepath.Join(verifRoot, "harness")
	if repoPath != "/repo" {
		// alternative repository location (sensitivity runs against scratch copies)
		mod, err := os.ReadFile(filepath.Join(harness, "go.mod"))
		if err != nil {
			return "", err
		}
		alt := filepath.Join(workDir, "alt.mod")
		mod = bytes.Replace(mod, []byte("=> /repo"), []byte("=> "+repoPath), 1)
		if err := os.WriteFile(alt, mod, 0o644); err != nil {
			return "", err
		}
		sum, _ := os.ReadFile(filepath.Join(harness, "go.sum"))
		os.WriteFile(filepath.Join(workDir, "alt.sum"), sum, 0o644)
		args = append(args, "-modfile", alt)
	}
	if race {
		args = append(args, "-race")
	}
	args = append(args, pkgDir(id))
	cmd := exec.Command("go", args...)
	cmd.Dir = harness
	cmd.Env = goEnv()
	out, err := cmd.CombinedOutput()
	if err != nil {
		return "", fmt.Errorf("go %s: %v\n%s", strings.Join(args, " "), err, out)
	}
	return bin, nil
}

type finding struct {
	ID       string `json:"id"`
	Property string `json:"property"`
	Status   string `json:"status"` // open | fixed
	Commit   string `json:"commit,omitempty"`
	What     string `json:"what"`
	Class    string `json:"class,omitempty"`
	Witness  string `json:"witness,omitempty"`
}

type findingsFile struct {
	Findings []finding `json:"findings"`
	Log      []string  `json:"log"`
}

func loadFindings() findingsFile {
	var ff findingsFile
	b, err := os.ReadFile(filepath.Join(verifRoot, "known_findings.json"))
	if err == nil {
		json.Unmarshal(b, &ff)
	}
	return ff
}

type caseFile struct {
	Property string          `json:"property"`
	Sub      string          `json:"sub"`
	Message  string          `json:"message,omitempty"`
	Case     json.RawMessage `json:"case"`
}

type runResult struct {
	exit     int
	out      []byte
	timedOut bool
}

func runWorker(bin string, env []string, args []string, deadline time.Duration, memGB int) runResult {
	// ulimit -v bounds runaway allocation; the race detector needs a large address space
	shell := fmt.Sprintf("ulimit -v %d 2>/dev/null; exec \"$0\" \"$@\"", memGB*1024*1024)
	full := append([]string{"-c", shell, bin}, args...)
	cmd := exec.Command("/bin/sh", full...)
	cmd.Env = env
	cmd.Dir = filepath.Dir(bin)
	cmd.SysProcAttr = &syscall.SysProcAttr{Setpgid: true}
	var buf bytes.Buffer
	cmd.Stdout = &buf
	cmd.Stderr = &buf
	if err := cmd.Start(); err != nil {
		return runResult{exit: 2, out: []byte(err.Error())}
	}
	done := make(chan error, 1)
	go func() { done <- cmd.Wait() }()
	select {
	case err := <-done:
		code := 0
		if err != nil {
			code = 1
			if ee, ok := err.(*exec.ExitError); ok {
				code = ee.ExitCode()
				if code < 0 {
					code = 128
				}
			}
		}
		return runResult{exit: code, out: buf.Bytes()}
	case <-time.After(deadline):
		syscall.Kill(-cmd.Process.Pid, syscall.SIGKILL)
		<-done
		return runResult{exit: 2, out: buf.Bytes(), timedOut: true}
	}
}

func workerEnv(id, tier string, seed uint64, shard, nshards int, out string, open []string, extra ...string) []string {
	env := goEnv()
	env = append(env,
		"VERIF_PROP="+id, "VERIF_TIER="+tier, "VERIF_SEED="+strconv.FormatUint(seed, 10),
		"VERIF_SHARD="+strconv.Itoa(shard), "VERIF_NSHARDS="+strconv.Itoa(nshards), "VERIF_OUT="+out,
		"VERIF_OPEN="+strings.Join(open, ","), "VERIF_ROOT="+verifRoot)
	if props[id].Race {
		// a race report ends the worker at once so that the journal names the case
		env = append(env, "GORACE=halt_on_error=1 exitcode=66")
	}
	if w := props[id].WatchdogS; w > 0 && os.Getenv("VERIF_WATCHDOG_S") == "" {
		env = append(env, "VERIF_WATCHDOG_S="+strconv.Itoa(w))
	}
	return append(env, extra...)
}

// replayOne runs one case file in a fresh process. ok=true: the case passes.
func replayOne(bin, id, tier, file, out string, open []string, race bool) (ok bool, res runResult) {
	if isFuzzFile(file) {
		return replayFuzz(bin, id, file, out, race)
	}
	env := workerEnv(id, tier, 1, 0, 1, out, open, "VERIF_REPLAY="+file)
	mem := 8
	if race {
		mem = 0
	}
	limit := 5 * time.Minute
	if w := time.Duration(props[id].WatchdogS) * time.Second; 2*w > limit {
		limit = 2 * w
	}
	res = runWorker(bin, env, []string{"-test.run", "^TestReplay$", "-test.timeout", "0", "-test.count=1"}, limit, memOrUnlimited(mem))
	return res.exit == 0 && bytes.Contains(res.out, []byte("REPLAY-OK")), res
}

// isFuzzFile reports whether the file is a native fuzz corpus entry.
func isFuzzFile(file string) bool {
	b, err := os.ReadFile(file)
	return err == nil && (bytes.HasPrefix(b, []byte("go test fuzz v1")) || bytes.HasPrefix(b, []byte(seedFailureMarker)))
}

// a fuzz target whose own seed corpus (f.Add) fails leaves no crasher file; the driver then saves a marker
// file, and replaying it runs the target's seed corpus as a plain test
const seedFailureMarker = "verif: seed corpus failure"

// replayFuzz re-runs a saved native fuzz input: the file name is
// <FuzzTarget>-<hash>; it is placed into testdata/fuzz/<FuzzTarget>/ below the
// worker's directory and the target is run as a plain test.
func replayFuzz(bin, id, file, out string, race bool) (bool, runResult) {
	base := filepath.Base(file)
	i := strings.Index(base, "-")
	if i < 0 {
		return false, runResult{exit: 2, out: []byte("bad fuzz file name " + base)}
	}
	target := base[:i]
	dir := filepath.Join(filepath.Dir(bin), "testdata", "fuzz", target)
	os.MkdirAll(dir, 0o755)
	b, _ := os.ReadFile(file)
	if !bytes.HasPrefix(b, []byte(seedFailureMarker)) {
		dst := filepath.Join(dir, base[i+1:])
		os.WriteFile(dst, b, 0o644)
		defer os.Remove(dst)
	}
	env := workerEnv(id, "quick", 1, 0, 1, out, nil)
	res := runWorker(bin, env, []string{"-test.run", "^" + target + "$", "-test.timeout", "10m", "-test.count=1"}, 5*time.Minute, memOrUnlimited(8))
	return res.exit == 0, res
}

func memOrUnlimited(gb int) int {
	if gb <= 0 {
		return 1 << 20 // effectively unlimited
	}
	return gb
}

func replayCmd(id, file string) int {
	abs, _ := filepath.Abs(file)
	work := filepath.Join(verifRoot, "work", id+"-replay")
	os.RemoveAll(work)
	os.MkdirAll(work, 0o755)
	defer os.RemoveAll(work)
	cfg := props[id]
	bin, err := build(id, work, cfg.Race)
	if err != nil {
		fmt.Fprintln(os.Stderr, err)
		return 2
	}
	// a replay runs the case strictly: no known-finding class is constructed away
	ok, res := replayOne(bin, id, "quick", abs, work, nil, cfg.Race)
	os.Stdout.Write(res.out)
	if ok {
		return 0
	}
	if res.timedOut {
		return 2
	}
	fmt.Printf("VIOLATION property=%s replay=%s\n", id, abs)
	return 1
}

func without(list []string, x string) []string {
	out := []string{}
	for _, e := range list {
		if e != x {
			out = append(out, e)
		}
	}
	return out
}

func openClasses(id string) []string {
	var open []string
	for _, f := range loadFindings().Findings {
		if f.Status == "open" {
			open = append(open, f.ID)
		}
	}
	sort.Strings(open)
	return open
}

type shardStats struct {
	Sub         string            `json:"sub"`
	Shard       int               `json:"shard"`
	Mode        string            `json:"mode"`
	Requested   int64             `json:"requested"`
	Evaluations int64             `json:"evaluations"`
	Discarded   int64             `json:"discarded"`
	NonTrivial  int64             `json:"nontrivial"`
	Distinct    int64             `json:"distinct_nontrivial_shard"`
	Exhaustive  bool              `json:"exhaustive"`
	EnumTotal   int64             `json:"enum_total"`
	Classes     map[string]int64  `json:"classes"`
	Excluded    map[string]int64  `json:"excluded_known"`
	Samples     []json.RawMessage `json:"samples"`
	Failed      bool              `json:"failed"`
	Done        bool              `json:"done"`
	WallS       float64           `json:"wall_s"`
	Rule        string            `json:"rule"`
}

type subSummary struct {
	Sub         string           `json:"sub"`
	Mode        string           `json:"mode"`
	Evaluations int64            `json:"evaluations"`
	Discarded   int64            `json:"discarded"`
	NonTrivial  int64            `json:"nontrivial"`
	Distinct    int64            `json:"distinct_nontrivial"`
	Exhaustive  bool             `json:"exhaustive"`
	EnumTotal   int64            `json:"enum_total,omitempty"`
	Requested   int64            `json:"requested"`
	Classes     map[string]int64 `json:"classes,omitempty"`
	Excluded    map[string]int64 `json:"excluded_known,omitempty"`
	Rule        string           `json:"rule,omitempty"`
	Shards      int              `json:"shards"`
	ShardsDone  int              `json:"shards_done"`
}

func check(id, tier string) int {
	start := time.Now()
	cfg, ok := props[id]
	if !ok {
		fmt.Fprintf(os.Stderr, "unknown property %s\n", id)
		return 2
	}
	if v := os.Getenv("VERIF_TIER"); v != "" && v != tier {
		fmt.Fprintf(os.Stderr, "note: VERIF_TIER=%s disagrees with --tier %s; the command line wins\n", v, tier)
	}
	seed := uint64(1)
	if v, err := strconv.ParseUint(os.Getenv("VERIF_SEED"), 10, 64); err == nil {
		seed = v
	}
	work := filepath.Join(verifRoot, "work", id+"-"+tier)
	// VERIF_SCRATCH redirects everything a run writes (work files, found replays, evidence) to another
	// directory, so that sensitivity runs against scratch copies do not disturb /verif
	scratch := os.Getenv("VERIF_SCRATCH")
	if scratch != "" {
		work = filepath.Join(scratch, "work-"+id+"-"+tier)
	}
	os.RemoveAll(work)
	if err := os.MkdirAll(work, 0o755); err != nil {
		fmt.Fprintln(os.Stderr, err)
		return 2
	}
	keepWork := os.Getenv("VERIF_KEEP") != ""
	defer func() {
		if !keepWork {
			os.RemoveAll(work)
		}
	}()

	bin, err := build(id, work, cfg.Race)
	if err != nil {
		fmt.Fprintf(os.Stderr, "INCONCLUSIVE property=%s build failed:\n%v\n", id, err)
		return 2
	}
	buildS := time.Since(start).Seconds()

	ff := loadFindings()
	open := openClasses(id)
	violations := []string{}
	known := []string{}
	inconclusive := []string{}
	replayed := 0

	// 1. known findings of this property: replay the witnesses
	openWitness := map[string]bool{}
	for _, f := range ff.Findings {
		if f.Property != id || f.Witness == "" {
			continue
		}
		w := filepath.Join(verifRoot, f.Witness)
		if os.Getenv("VERIF_NOREPLAY") != "" && f.Status != "open" {
			continue
		}
		if f.Status == "open" {
			openWitness[w] = true
			if _, err := os.Stat(w); err != nil {
				inconclusive = append(inconclusive, "witness of "+f.ID+" is missing: "+f.Witness)
				continue
			}
			// the witness runs with its own class NOT constructed away
			okRun, res := replayOne(bin, id, tier, w, work, without(open, f.ID), cfg.Race)
			replayed++
			if res.timedOut && !strings.Contains(f.What, "hang") {
				inconclusive = append(inconclusive, "witness of "+f.ID+" timed out")
				continue
			}
			if !okRun {
				fmt.Printf("KNOWN-FINDING: property=%s %s: %s (witness %s)\n", id, f.ID, f.What, f.Witness)
				known = append(known, f.ID)
			}
		}
	}
	// 2. replay tier: every saved case (fixed findings, shrunk failures of earlier runs, hand-picked regressions)
	files, _ := filepath.Glob(filepath.Join(verifRoot, "replays", id, "*.json"))
	fuzzFiles, _ := filepath.Glob(filepath.Join(verifRoot, "replays", id, "fuzz", "*"))
	files = append(files, fuzzFiles...)
	sort.Strings(files)
	if os.Getenv("VERIF_NOREPLAY") != "" {
		files = nil // sensitivity runs: generated search only
	}
	var mu sync.Mutex
	var wg sync.WaitGroup
	sem := make(chan struct{}, 8)
	for _, f := range files {
		if openWitness[f] {
			continue
		}
		wg.Add(1)
		go func(f string) {
			defer wg.Done()
			sem <- struct{}{}
			defer func() { <-sem }()
			sub := filepath.Join(work, "replay-"+filepath.Base(f))
			os.MkdirAll(sub, 0o755)
			okRun, res := replayOne(bin, id, tier, f, sub, open, cfg.Race)
			mu.Lock()
			defer mu.Unlock()
			replayed++
			if res.timedOut {
				// a saved case that hangs is a violation of its property (it was saved because it once failed)
				violations = append(violations, f)
				fmt.Printf("replay %s: did not finish\n", f)
				return
			}
			if !okRun {
				violations = append(violations, f)
				fmt.Printf("replay %s failed:\n%s\n", f, tail(res.out, 2000))
			}
		}(f)
	}
	wg.Wait()

	// 3. generated search, sharded
	nsh := cfg.QuickShards
	budget := cfg.QuickBudget
	if tier == "thorough" {
		nsh = cfg.ThoroughShard
		budget = cfg.ThoroughBudg
	}
	if v, err := strconv.Atoi(os.Getenv("VERIF_SHARDS")); err == nil && v > 0 {
		nsh = v
	}
	results := make([]runResult, nsh)
	for s := 0; s < nsh; s++ {
		wg.Add(1)
		go func(s int) {
			defer wg.Done()
			out := filepath.Join(work, fmt.Sprintf("shard-%d", s))
			os.MkdirAll(out, 0o755)
			env := workerEnv(id, tier, seed, s, nsh, out, open)
			mem := 8
			if cfg.Race {
				mem = 0
			}
			results[s] = runWorker(bin, env, []string{"-test.run", "^Test", "-test.skip", "^TestReplay$", "-test.timeout", "0", "-test.count=1", "-test.v=false"}, budget, memOrUnlimited(mem))
			os.WriteFile(filepath.Join(out, "output.txt"), results[s].out, 0o644)
		}(s)
	}
	wg.Wait()

	// 4. collect
	subs := map[string]*subSummary{}
	hashSets := map[string]map[uint64]struct{}{}
	samples := []json.RawMessage{}
	for s := 0; s < nsh; s++ {
		out := filepath.Join(work, fmt.Sprintf("shard-%d", s))
		stFiles, _ := filepath.Glob(filepath.Join(out, "stats-*.json"))
		sort.Strings(stFiles)
		for _, sf := range stFiles {
			b, err := os.ReadFile(sf)
			if err != nil {
				continue
			}
			var st shardStats
			if json.Unmarshal(b, &st) != nil {
				continue
			}
			sum := subs[st.Sub]
			if sum == nil {
				sum = &subSummary{Sub: st.Sub, Mode: st.Mode, Classes: map[string]int64{}, Excluded: map[string]int64{}, Rule: st.Rule, Exhaustive: st.Mode == "enum"}
				subs[st.Sub] = sum
				hashSets[st.Sub] = map[uint64]struct{}{}
			}
			sum.Shards++
			if st.Done {
				sum.ShardsDone++
			}
			sum.Evaluations += st.Evaluations
			sum.Discarded += st.Discarded
			sum.NonTrivial += st.NonTrivial
			sum.Requested += st.Requested
			if st.Mode == "enum" {
				sum.Distinct += st.Distinct
				sum.EnumTotal = st.EnumTotal
				if !st.Exhaustive {
					sum.Exhaustive = false
				}
			}
			for k, v := range st.Classes {
				sum.Classes[k] += v
			}
			for k, v := range st.Excluded {
				sum.Excluded[k] += v
			}
			if s == 0 || len(samples) < 4 {
				for _, smp := range st.Samples {
					if len(samples) < 12 {
						samples = append(samples, wrapSample(st.Sub, smp))
					}
				}
			}
			if st.Mode != "enum" {
				hb, err := os.ReadFile(filepath.Join(out, fmt.Sprintf("hashes-%s-%d.bin", st.Sub, st.Shard)))
				if err == nil {
					set := hashSets[st.Sub]
					for i := 0; i+8 <= len(hb); i += 8 {
						set[binary.LittleEndian.Uint64(hb[i:])] = struct{}{}
					}
				}
			}
		}
	}
	for name, sum := range subs {
		if sum.Mode != "enum" {
			sum.Distinct = int64(len(hashSets[name]))
		}
		if sum.Mode == "enum" && sum.Shards != nsh {
			sum.Exhaustive = false
		}
	}

	// 5. failures, deaths, hangs
	replayDir := filepath.Join(verifRoot, "replays", id)
	if scratch != "" {
		replayDir = filepath.Join(scratch, "found", id)
	}
	seenSub := map[string]bool{}
	for s := 0; s < nsh; s++ {
		out := filepath.Join(work, fmt.Sprintf("shard-%d", s))
		res := results[s]
		fails, _ := filepath.Glob(filepath.Join(out, "fail-*.json"))
		sort.Strings(fails)
		for _, f := range fails {
			b, err := os.ReadFile(f)
			if err != nil {
				continue
			}
			var cf caseFile
			json.Unmarshal(b, &cf)
			if seenSub[cf.Sub] {
				continue
			}
			seenSub[cf.Sub] = true
			dst := saveReplay(replayDir, "found", b)
			violations = append(violations, dst)
			fmt.Printf("failure in %s (shard %d): %s\n", cf.Sub, s, firstLines(cf.Message, 12))
		}
		if res.exit == 0 || (res.exit == 1 && len(fails) > 0) {
			continue // clean, or ordinary test failures that were recorded
		}
		// no recorded failure but the worker did not exit cleanly: hang, death or harness problem
		cand := ""
		if _, err := os.Stat(filepath.Join(out, fmt.Sprintf("hang-%d.json", s))); err == nil {
			cand = filepath.Join(out, fmt.Sprintf("hang-%d.json", s))
		} else if st, err := os.Stat(filepath.Join(out, fmt.Sprintf("journal-%d.json", s))); err == nil && st.Size() > 0 && !res.timedOut {
			cand = filepath.Join(out, fmt.Sprintf("journal-%d.json", s))
		}
		if cand == "" {
			what := fmt.Sprintf("shard %d exited with status %d without a recorded case", s, res.exit)
			if res.timedOut {
				what = fmt.Sprintf("shard %d exceeded the harness budget of %v", s, budget)
			}
			inconclusive = append(inconclusive, what)
			fmt.Fprintf(os.Stderr, "%s\n%s\n", what, tail(res.out, 3000))
			continue
		}
		// confirm alone in a fresh process
		sub := filepath.Join(work, fmt.Sprintf("confirm-%d", s))
		os.MkdirAll(sub, 0o755)
		okRun, r2 := replayOne(bin, id, tier, cand, sub, open, cfg.Race)
		for try := 0; okRun && cfg.Race && try < 20; try++ {
			// a schedule-dependent failure may need several attempts to show again
			okRun, r2 = replayOne(bin, id, tier, cand, sub, open, cfg.Race)
		}
		if okRun {
			what := fmt.Sprintf("shard %d died (status %d) but its journaled case passes alone", s, res.exit)
			inconclusive = append(inconclusive, what)
			fmt.Fprintf(os.Stderr, "%s\n%s\n", what, tail(res.out, 3000))
			continue
		}
		b, _ := os.ReadFile(cand)
		b = minimizeFatal(bin, id, tier, b, work, open, cfg.Race)
		var cf caseFile
		json.Unmarshal(b, &cf)
		if !seenSub[cf.Sub] {
			seenSub[cf.Sub] = true
			cf.Message = "fatal: the worker process died or hung on this case (confirmed alone in a fresh process)\n" + tail(r2.out, 1500)
			b2, _ := json.Marshal(cf)
			dst := saveReplay(replayDir, "fatal", b2)
			violations = append(violations, dst)
			fmt.Printf("fatal failure in %s (shard %d): %s\n", cf.Sub, s, firstLines(tail(r2.out, 1500), 12))
		}
	}

	// 6. native fuzz campaigns (thorough tier only)
	fuzzInfo := []map[string]interface{}{}
	if tier == "thorough" && os.Getenv("VERIF_NOFUZZ") == "" {
		for _, ft := range cfg.Fuzz {
			info, crash := runFuzz(id, ft, work)
			fuzzInfo = append(fuzzInfo, info)
			if crash != "" {
				violations = append(violations, crash)
			}
		}
	}

	// 7. evidence
	var evals, nontriv, distinct, discarded int64
	names := []string{}
	for n := range subs {
		names = append(names, n)
	}
	sort.Strings(names)
	subruns := []*subSummary{}
	rules := []string{}
	excluded := map[string]int64{}
	incomplete := []string{}
	for _, n := range names {
		s := subs[n]
		evals += s.Evaluations
		nontriv += s.NonTrivial
		distinct += s.Distinct
		discarded += s.Discarded
		subruns = append(subruns, s)
		if s.Rule != "" {
			rules = append(rules, n+": "+s.Rule)
		}
		for k, v := range s.Excluded {
			excluded[k] += v
		}
		if s.Mode == "rapid" && s.Evaluations+s.Discarded < s.Requested*9/10 && len(violations) == 0 {
			incomplete = append(incomplete, fmt.Sprintf("%s ran %d of %d requested cases", n, s.Evaluations+s.Discarded, s.Requested))
		}
	}
	if len(subs) == 0 && len(violations) == 0 {
		inconclusive = append(inconclusive, "no sub-check reported statistics")
	}
	ev := map[string]interface{}{
		"property_id": id,
		"tier":        tier,
		"seed":        seed,
		"level":       "exploration",
		"coverage": map[string]interface{}{
			"evaluations":         evals,
			"distinct_nontrivial": distinct,
			"nontrivial":          nontriv,
			"discarded":           discarded,
			"rule":                strings.Join(rules, " || "),
			"samples":             samples,
			"subruns":             subruns,
			"excluded_known":      excluded,
			"replayed_cases":      replayed,
			"exhaustive":          false,
			"shards":              nsh,
			"native_fuzz":         fuzzInfo,
			"incomplete":          incomplete,
		},
		"assumptions":    assumptions(id),
		"wall_s":         round1(time.Since(start).Seconds()),
		"build_s":        round1(buildS),
		"violations":     len(violations),
		"known_findings": known,
		"inconclusive":   inconclusive,
	}
	eb, _ := json.MarshalIndent(ev, "", " ")
	evDir := filepath.Join(verifRoot, "evidence")
	if scratch != "" {
		evDir = filepath.Join(scratch, "evidence")
	}
	os.MkdirAll(evDir, 0o755)
	os.WriteFile(filepath.Join(evDir, id+".json"), eb, 0o644)

	// 8. verdict
	if len(violations) > 0 {
		keepWork = keepWork || os.Getenv("VERIF_KEEP_ON_FAIL") != ""
		sort.Strings(violations)
		for _, v := range violations {
			fmt.Printf("VIOLATION property=%s replay=%s\n", id, v)
		}
		return 1
	}
	if len(inconclusive) > 0 {
		for _, w := range inconclusive {
			fmt.Printf("INCONCLUSIVE property=%s %s\n", id, w)
		}
		return 2
	}
	fmt.Printf("OK property=%s tier=%s seed=%d evaluations=%d distinct_nontrivial=%d replayed=%d known_findings=%d wall=%.1fs\n",
		id, tier, seed, evals, distinct, replayed, len(known), time.Since(start).Seconds())
	return 0
}

func wrapSample(sub string, raw json.RawMessage) json.RawMessage {
	b, _ := json.Marshal(map[string]interface{}{"sub": sub, "case": raw})
	return b
}

func round1(f float64) float64 { return float64(int64(f*10)) / 10 }

func tail(b []byte, n int) string {
	if len(b) > n {
		b = b[len(b)-n:]
	}
	return string(b)
}

func firstLines(s string, n int) string {
	lines := strings.Split(s, "\n")
	if len(lines) > n {
		lines = append(lines[:n], "…")
	}
	return strings.Join(lines, "\n")
}

func saveReplay(dir, prefix string, doc []byte) string {
	os.MkdirAll(dir, 0o755)
	var cf caseFile
	json.Unmarshal(doc, &cf)
	h := fnv64(cf.Case)
	name := filepath.Join(dir, fmt.Sprintf("%s-%s-%016x.json", prefix, cf.Sub, h))
	var pretty bytes.Buffer
	if json.Indent(&pretty, doc, "", " ") == nil {
		doc = pretty.Bytes()
	}
	os.WriteFile(name, doc, 0o644)
	return name
}

func fnv64(b []byte) uint64 {
	var h uint64 = 14695981039346656037
	for _, c := range b {
		h ^= uint64(c)
		h *= 1099511628211
	}
	return h
}

// minimizeFatal shrinks a case whose failure kills the worker (so that rapid
// cannot shrink it): a greedy JSON delta-debugger that drops list elements and
// object members and halves strings, each candidate confirmed in a fresh
// process, for at most 40 seconds.
func minimizeFatal(bin, id, tier string, doc []byte, work string, open []string, race bool) []byte {
	var cf caseFile
	if json.Unmarshal(doc, &cf) != nil {
		return doc
	}
	var v interface{}
	dec := json.NewDecoder(bytes.NewReader(cf.Case))
	dec.UseNumber()
	if dec.Decode(&v) != nil {
		return doc
	}
	deadline := time.Now().Add(40 * time.Second)
	dir := filepath.Join(work, "minimize")
	os.MkdirAll(dir, 0o755)
	n := 0
	stillFails := func(cand interface{}) bool {
		if time.Now().After(deadline) {
			return false
		}
		raw, err := json.Marshal(cand)
		if err != nil {
			return false
		}
		n++
		f := filepath.Join(dir, fmt.Sprintf("cand-%d.json", n))
		b, _ := json.Marshal(caseFile{Property: cf.Property, Sub: cf.Sub, Case: raw})
		os.WriteFile(f, b, 0o644)
		ok, res := replayOne(bin, id, tier, f, dir, open, race)
		if ok {
			return false
		}
		// only deaths/hangs count; a decoding error or an ordinary failure is a different thing
		return !bytes.Contains(res.out, []byte("replay: cannot decode")) && !bytes.Contains(res.out, []byte("REPLAY-FAIL"))
	}
	changed := true
	for changed && time.Now().Before(deadline) {
		changed = false
		v, changed = shrinkJSON(v, stillFails)
	}
	raw, _ := json.Marshal(v)
	cf.Case = raw
	out, _ := json.Marshal(cf)
	return out
}

// shrinkJSON tries one round of simplifications anywhere in v; test receives
// the whole modified document.
func shrinkJSON(v interface{}, test func(root interface{}) bool) (interface{}, bool) {
	holder := []interface{}{v}
	changedAny := false
	var rec func(get func() interface{}, set func(interface{}))
	rec = func(get func() interface{}, set func(interface{})) {
		switch x := get().(type) {
		case []interface{}:
			for i := 0; i < len(x); {
				cand := append(append([]interface{}{}, x[:i]...), x[i+1:]...)
				set(cand)
				if test(holder[0]) {
					x = cand
					changedAny = true
					continue
				}
				set(x)
				i++
			}
			for i := range x {
				i := i
				rec(func() interface{} { return x[i] }, func(v interface{}) { x[i] = v })
			}
		case map[string]interface{}:
			keys := []string{}
			for k := range x {
				keys = append(keys, k)
			}
			sort.Strings(keys)
			for _, k := range keys {
				k := k
				rec(func() interface{} { return x[k] }, func(v interface{}) { x[k] = v })
			}
		case string:
			for len(x) > 0 {
				cand := x[:len(x)/2]
				set(cand)
				if test(holder[0]) {
					x = cand
					changedAny = true
					continue
				}
				set(x)
				break
			}
		}
	}
	rec(func() interface{} { return holder[0] }, func(v interface{}) { holder[0] = v })
	return holder[0], changedAny
}

func assumptions(id string) []string {
	base := []string{
		"the Go toolchain, the reflect package, pgregory.net/rapid v1.3.0 and the harness's own reference models are trusted",
		"held on everything generated is not absence: only sub-runs marked exhaustive enumerated their finite space completely",
	}
	if a, ok := extraAssumptions[id]; ok {
		base = append(base, a...)
	}
	return base
}

var extraAssumptions = map[string][]string{}

// runFuzz runs one native fuzz campaign (go test -fuzz) with a fresh cache
// directory; a crasher is copied into replays/<id>/ as the reproducible unit.
func runFuzz(id string, ft fuzzTarget, work string) (map[string]interface{}, string) {
	info := map[string]interface{}{"target": ft.Name, "seconds": ft.Secs}
	harness := filepath.Join(verifRoot, "harness")
	pkg := filepath.Join(harness, "props", strings.ToLower(id))
	cache := filepath.Join(work, "fuzzcache-"+ft.Name)
	os.MkdirAll(cache, 0o755)
	crashDir := filepath.Join(pkg, "testdata", "fuzz", ft.Name)
	before := listDir(crashDir)
	secs := ft.Secs
	if v, err := strconv.Atoi(os.Getenv("VERIF_FUZZ_SECS")); err == nil && v > 0 {
		secs = v
	}
	args := []string{"test", "-tags", "verif", "-run", "^$", "-fuzz", "^" + ft.Name + "$", "-fuzztime", fmt.Sprintf("%ds", secs)}
	if repoPath != "/repo" {
		args = append(args, "-modfile", filepath.Join(work, "alt.mod"))
	}
	// the package comes before -test.fuzzcachedir: go test passes everything after an unknown -test.* flag to the binary
	args = append(args, pkgDir(id), "-test.fuzzcachedir", cache)
	cmd := exec.Command("go", args...)
	cmd.Dir = harness
	cmd.Env = append(goEnv(), "VERIF_PROP="+id, "VERIF_OUT="+work)
	out, err := cmd.CombinedOutput()
	info["output_tail"] = tail(out, 600)
	if m := lastExecs(out); m != "" {
		info["execs"] = m
	}
	if err == nil {
		return info, ""
	}
	after := listDir(crashDir)
	for f := range after {
		if !before[f] {
			src := filepath.Join(crashDir, f)
			b, _ := os.ReadFile(src)
			dstDir := filepath.Join(verifRoot, "replays", id, "fuzz")
			if sc := os.Getenv("VERIF_SCRATCH"); sc != "" {
				dstDir = filepath.Join(sc, "found", id, "fuzz")
			}
			os.MkdirAll(dstDir, 0o755)
			dst := filepath.Join(dstDir, ft.Name+"-"+f)
			os.WriteFile(dst, b, 0o644)
			os.Remove(src)
			fmt.Printf("native fuzz %s found a failing input:\n%s\n", ft.Name, tail(out, 1500))
			return info, dst
		}
	}
	if bytes.Contains(out, []byte("failure while testing seed corpus entry")) {
		dstDir := filepath.Join(verifRoot, "replays", id, "fuzz")
		if sc := os.Getenv("VERIF_SCRATCH"); sc != "" {
			dstDir = filepath.Join(sc, "found", id, "fuzz")
		}
		os.MkdirAll(dstDir, 0o755)
		dst := filepath.Join(dstDir, ft.Name+"-seedcorpus")
		os.WriteFile(dst, []byte(seedFailureMarker+" of "+ft.Name+"\n"+tail(out, 1500)), 0o644)
		fmt.Printf("native fuzz %s: an entry of the target's own seed corpus fails:\n%s\n", ft.Name, tail(out, 1200))
		return info, dst
	}
	if bytes.Contains(out, []byte("no fuzz tests to fuzz")) || bytes.Contains(out, []byte("no tests to run")) {
		info["skipped"] = "target not present"
		return info, ""
	}
	fmt.Fprintf(os.Stderr, "native fuzz %s ended with an error but no new crasher:\n%s\n", ft.Name, tail(out, 1500))
	info["error"] = "campaign failed without crasher"
	return info, ""
}

func lastExecs(out []byte) string {
	lines := strings.Split(string(out), "\n")
	for i := len(lines) - 1; i >= 0; i-- {
		if strings.Contains(lines[i], "execs:") {
			return strings.TrimSpace(lines[i])
		}
	}
	return ""
}

func listDir(d string) map[string]bool {
	out := map[string]bool{}
	es, _ := os.ReadDir(d)
	for _, e := range es {
		out[e.Name()] = true
	}
	return out
}
