#!/bin/sh
# usage: tools/record_fixed.sh <Dnn> <prop> <patch-number|commit> <witness|-> <what...>
# Finds the /repo commit that carries candidate patch <patch-number> (by subject) and records the finding as fixed.
d=$1; prop=$2; pn=$3; wit=$4; shift 4
case "$pn" in
  [0-9][0-9][0-9][0-9]) subj=$(grep -m1 '^Subject:' /verif/design-notes/candidate-fixes/$pn-*.patch | sed 's/^Subject: \[PATCH[^]]*\] //'); commit=$(git -C /repo log --format='%h %s' | grep -F "$(echo "$subj" | cut -c1-60)" | head -1 | cut -d' ' -f1);;
  *) commit=$pn;;
esac
[ -n "$commit" ] || { echo "no commit for $pn"; exit 1; }
KF_COMMIT=$commit /verif/tools/kf.py fixed "$d" "$prop" "$wit" "$@"
