#!/usr/bin/env python3
"""seeded.py <PROP> <n> [extra props...]
Confirms an independent seeded change (/tmp/seed-<PROP>/out/change_<n>.diff + demo_<n>_test.go): applies to a scratch
copy of /repo, compiles, vets, unedited suite green, demonstration passes without / fails with the change; then runs
the quick check of the property (and of the extra properties) against the copy with the generated search only.
Keeps the change in /verif/seeded/<PROP>-<n>/ (patch.diff, demo_test.go, meta.json) if it is confirmed."""
import sys, os, re, json, shutil, subprocess
prop, n = sys.argv[1], sys.argv[2]
extra = sys.argv[3:]
rnd = os.environ.get('SEED_ROUND', '1')
src = f'/tmp/seed-{prop}/out' if rnd == '1' else f'/tmp/seed{rnd}-{prop}/out'
label = f'{prop}-{n}' if rnd == '1' else f'{prop}-r{rnd}-{n}'
patch, demo = f'{src}/change_{n}.diff', f'{src}/demo_{n}_test.go'
env = dict(os.environ, GOFLAGS='-mod=mod', GOPROXY='off', GOSUMDB='off', GOTOOLCHAIN='local')
def sh(cmd, cwd=None, e=env, timeout=1800):
    r = subprocess.run(cmd, shell=True, cwd=cwd, env=e, capture_output=True, text=True, timeout=timeout)
    return r.returncode, r.stdout + r.stderr
if not (os.path.exists(patch) and os.path.exists(demo)):
    print(f'{label}: missing files'); sys.exit(3)
d = f'/root/mut/seed-{label}'
shutil.rmtree(d, ignore_errors=True); os.makedirs('/root/mut', exist_ok=True)
shutil.copytree('/repo', d, ignore=shutil.ignore_patterns('.git'))
sh('git init -q .', d)
pkgline = re.search(r'^package\s+(\w+)', open(demo).read(), re.M).group(1)
pk = pkgline[:-5] if pkgline.endswith('_test') else pkgline
pkgdir = '.' if pk == 'ucfg' else pk
demo_dst = os.path.join(d, pkgdir, f'zz_seed_demo_{n}_test.go')
meta = {'property': prop, 'n': int(n), 'round': int(rnd), 'demo_package': pkgdir, 'confirmed': False, 'ran': []}
def finish(msg, keep=False):
    meta['result'] = msg
    print(f'{label}: {msg}')
    if keep:
        out = f'/verif/seeded/{label}'
        os.makedirs(out, exist_ok=True)
        shutil.copy(patch, f'{out}/patch.diff'); shutil.copy(demo, f'{out}/demo_test.go')
        notes = f'{src}/notes.md'
        if os.path.exists(notes): shutil.copy(notes, f'{out}/notes-from-author.md')
        json.dump(meta, open(f'{out}/meta.json', 'w'), indent=1)
    shutil.rmtree(d, ignore_errors=True)
    sys.exit(0)
shutil.copy(demo, demo_dst)
rc, out = sh(f'go test -count=1 -run Demo ./{pkgdir}/', d)
meta['ran'].append(f'clean tree: go test -run Demo ./{pkgdir}/ -> exit {rc}')
if rc != 0: finish('demonstration FAILS on the clean tree: rejected\n' + out[-600:])
os.remove(demo_dst)
rc, out = sh(f'git apply --whitespace=nowarn {patch}', d)
if rc != 0: finish('patch does not apply: rejected\n' + out[-400:])
rc, out = sh('go build ./... && go vet ./...', d)
meta['ran'].append(f'changed tree: go build ./... && go vet ./... -> exit {rc}')
if rc != 0: finish('does not compile/vet: rejected\n' + out[-400:])
rc, out = sh('go test -count=1 ./...', d)
meta['ran'].append(f'changed tree: go test -count=1 ./... (unedited suite) -> exit {rc}')
if rc != 0: finish('unedited suite fails with the change: rejected\n' + out[-600:])
shutil.copy(demo, demo_dst)
rc, out = sh(f'go test -count=1 -run Demo ./{pkgdir}/', d)
meta['ran'].append(f'changed tree: go test -run Demo ./{pkgdir}/ -> exit {rc}')
os.remove(demo_dst)
if rc == 0: finish('demonstration PASSES with the change: rejected')
meta['confirmed'] = True
res = {}
for p in [prop] + extra:
    e = dict(env, VERIF_REPO=d, VERIF_SCRATCH=f'{d}/scratch', VERIF_NOREPLAY='1')
    rc, out = sh(f'./check {p} quick', '/verif', e, timeout=3600)
    first = next((l for l in out.splitlines() if l.startswith('failure') or l.startswith('fatal')), '')
    res[p] = {'exit': rc, 'verdict': 'caught' if rc == 1 and 'VIOLATION' in out else ('missed' if rc == 0 else 'inconclusive'), 'first_failure': first[:300]}
    meta['ran'].append(f'VERIF_REPO=<copy> VERIF_NOREPLAY=1 ./check {p} quick -> exit {rc}')
meta['checks'] = res
finish('confirmed; ' + ', '.join(f"{p}: {v['verdict']}" for p, v in res.items()), keep=True)
