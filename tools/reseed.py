#!/usr/bin/env python3
"""reseed.py [label...]: re-confirms kept seeded changes from /verif/seeded/<label>/ itself (patch.diff, demo_test.go)
against the CURRENT /repo and re-runs the quick check of the change's own property (generated search only):
applies, compiles, vets, unedited suite green, demonstration passes without / fails with the change.
Updates meta.json ("recheck") and prints one line per change. RS_PAR parallel jobs (default 3)."""
import sys, os, re, json, glob, shutil, subprocess, concurrent.futures as cf
env = dict(os.environ, GOFLAGS='-mod=mod', GOPROXY='off', GOSUMDB='off', GOTOOLCHAIN='local')
def sh(cmd, cwd, e=env, timeout=3600):
    r = subprocess.run(cmd, shell=True, cwd=cwd, env=e, capture_output=True, text=True, timeout=timeout)
    return r.returncode, r.stdout + r.stderr
labels = sys.argv[1:] or sorted(os.path.basename(os.path.dirname(p)) for p in glob.glob('/verif/seeded/*/patch.diff'))
def one(label):
    src = f'/verif/seeded/{label}'
    meta = json.load(open(f'{src}/meta.json'))
    prop = meta['property']
    d = f'/root/mut/rs-{label}'
    shutil.rmtree(d, ignore_errors=True)
    shutil.copytree('/repo', d, ignore=shutil.ignore_patterns('.git'))
    def done(msg):
        shutil.rmtree(d, ignore_errors=True)
        meta['recheck'] = msg
        json.dump(meta, open(f'{src}/meta.json', 'w'), indent=1)
        return label, msg
    sh('git init -q .', d)
    demo = open(f'{src}/demo_test.go').read()
    pk = re.search(r'^package\s+(\w+)', demo, re.M).group(1)
    pk = pk[:-5] if pk.endswith('_test') else pk
    pkgdir = '.' if pk == 'ucfg' else pk
    dst = os.path.join(d, pkgdir, 'zz_seed_demo_test.go')
    shutil.copy(f'{src}/demo_test.go', dst)
    rc, out = sh(f'go test -count=1 -run Demo ./{pkgdir}/', d)
    if rc != 0: return done('demonstration FAILS on the clean tree')
    os.remove(dst)
    rc, out = sh(f'git apply --whitespace=nowarn {src}/patch.diff', d)
    if rc != 0: return done('patch does not apply')
    rc, out = sh('go build ./... && go vet ./... && go test -count=1 ./...', d)
    if rc != 0: return done('does not compile/vet or the unedited suite fails')
    shutil.copy(f'{src}/demo_test.go', dst)
    rc, out = sh(f'go test -count=1 -run Demo ./{pkgdir}/', d)
    os.remove(dst)
    if rc == 0: return done('demonstration PASSES with the change')
    e = dict(env, VERIF_REPO=d, VERIF_SCRATCH=f'{d}/scratch', VERIF_NOREPLAY='1')
    rc, out = sh(f'./check {prop} quick', '/verif', e)
    verdict = 'caught' if rc == 1 and 'VIOLATION' in out else ('missed' if rc == 0 else 'inconclusive')
    first = next((l for l in out.splitlines() if l.startswith('failure') or l.startswith('fatal')), '')
    meta.setdefault('checks', {})[prop] = {'exit': rc, 'verdict': verdict, 'first_failure': first[:300]}
    return done(f'confirmed; {prop}: {verdict}')
with cf.ThreadPoolExecutor(max_workers=int(os.environ.get('RS_PAR', '3'))) as ex:
    for label, msg in ex.map(one, labels):
        print(label, msg, flush=True)
