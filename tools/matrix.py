#!/usr/bin/env python3
"""matrix.py [label...]: runs the quick tier of ALL checks (generated search only) against every kept seeded change
and writes design-notes/seeded-matrix.txt (which checks catch which change). Scratch copies live under /root/mut."""
import sys, os, json, glob, shutil, subprocess, concurrent.futures as cf
props = [f'C{i:02d}' for i in range(1, 21)]
env = dict(os.environ, GOFLAGS='-mod=mod', GOPROXY='off', GOSUMDB='off', GOTOOLCHAIN='local')
# MX_RELATED=1: only the properties related to the change's own (cheaper); otherwise all 20
groups = [['C01', 'C16', 'C10', 'C05', 'C09'], ['C02', 'C08', 'C09', 'C11', 'C07'], ['C03', 'C06', 'C13', 'C14', 'C04'], ['C07', 'C17', 'C20', 'C12', 'C15'], ['C18', 'C19', 'C14', 'C05']]
def related(prop):
    out = [prop]
    for g in groups:
        if prop in g:
            out += [p for p in g if p not in out]
    return out
labels = sys.argv[1:] or sorted(os.path.basename(os.path.dirname(p)) for p in glob.glob('/verif/seeded/*/patch.diff'))
def one(label):
    d = f'/root/mut/mx-{label}'
    shutil.rmtree(d, ignore_errors=True)
    shutil.copytree('/repo', d, ignore=shutil.ignore_patterns('.git'))
    subprocess.run('git init -q . && git apply --whitespace=nowarn /verif/seeded/%s/patch.diff' % label, shell=True, cwd=d, env=env, capture_output=True)
    res = {p: ' ' for p in props}
    own = json.load(open(f'/verif/seeded/{label}/meta.json'))['property']
    for p in (related(own) if os.environ.get('MX_RELATED') else props):
        e = dict(env, VERIF_REPO=d, VERIF_SCRATCH=f'{d}/scratch', VERIF_NOREPLAY='1')
        r = subprocess.run(f'./check {p} quick', shell=True, cwd='/verif', env=e, capture_output=True, text=True)
        res[p] = 'X' if (r.returncode == 1 and 'VIOLATION' in r.stdout) else ('.' if r.returncode == 0 else '?')
    shutil.rmtree(d, ignore_errors=True)
    mp = f'/verif/seeded/{label}/meta.json'
    m = json.load(open(mp)); m['matrix'] = res; json.dump(m, open(mp, 'w'), indent=1)
    return label, res
rows = {}
with cf.ThreadPoolExecutor(max_workers=int(os.environ.get('MX_PAR', '2'))) as ex:
    for label, res in ex.map(one, labels):
        rows[label] = res
        print(label, ''.join(res[p] for p in props), flush=True)
out = ['%-10s %s' % ('change', ' '.join(p[1:] for p in props))]
for label in sorted(rows):
    out.append('%-10s %s' % (label, '  '.join(rows[label][p] for p in props)))
out.append('X = the quick check reports a VIOLATION from generated input, . = silent, ? = inconclusive')
path = '/verif/design-notes/seeded-matrix.txt'
old = open(path).read().splitlines() if os.path.exists(path) and sys.argv[1:] else []
open(path, 'w').write('\n'.join(out) + '\n')
