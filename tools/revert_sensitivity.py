#!/usr/bin/env python3
"""For every repaired defect in known_findings.json: revert its fix commit in a scratch copy and run the quick
check of the properties it belongs to with the generated search only (replay tier off). A check that stays
green against the revert is decoration. Writes design-notes/revert-sensitivity.txt."""
import json, subprocess, os, collections, sys
only=set(sys.argv[1:])  # finding ids; empty: all
root='/verif'
kf=json.load(open(f'{root}/known_findings.json'))
by_commit=collections.OrderedDict()
for f in kf['findings']:
    if f['status']=='fixed' and (not only or f['id'] in only):
        by_commit.setdefault(f['commit'],[]).append((f['id'],f['property']))
os.makedirs('/root/mut',exist_ok=True)
lines=[]
for c,items in by_commit.items():
    props=sorted(set(p for _,p in items)); ids=sorted(set(i for i,_ in items), key=lambda x:int(x[1:]))
    patch=f'/root/mut/revert-{c}.diff'
    d=subprocess.run(['git','-C','/repo','diff',c,c+'^','--','.',':!*_test.go'],capture_output=True,text=True).stdout
    open(patch,'w').write(d)
    out=subprocess.run([f'{root}/tools/muttest.sh',f'revert-{c}',patch]+props,capture_output=True,text=True).stdout
    os.remove(patch)
    for l in out.strip().splitlines():
        lines.append(f"{'+'.join(ids):14s} {l}")
        print(lines[-1],flush=True)
open(f'{root}/design-notes/revert-sensitivity.txt','a' if only else 'w').write('\n'.join(lines)+'\n')
