#!/usr/bin/env python3
"""kf.py fixed <Dnn> <prop> <witness-or-> <what...>   — records a repaired defect (commit = /repo HEAD unless KF_COMMIT is set)
   kf.py open  <Dnn> <prop> <witness> <class> -- <what...>"""
import json, sys, os, subprocess
p = os.path.join(os.path.dirname(os.path.dirname(os.path.abspath(__file__))), 'known_findings.json')
d = json.load(open(p))
mode, did, prop, wit = sys.argv[1:5]
rest = sys.argv[5:]
d['findings'] = [f for f in d['findings'] if not (f['id'] == did and f['property'] == prop)]
if mode == 'fixed':
    commit = os.environ.get('KF_COMMIT') or subprocess.run(['git', '-C', '/repo', 'rev-parse', '--short', 'HEAD'], capture_output=True, text=True).stdout.strip()
    what = ' '.join(rest)
    e = {"id": did, "property": prop, "status": "fixed", "commit": commit, "what": what}
    if wit != '-':
        e['witness'] = wit
    d['findings'].append(e)
    line = f"fixed: property={prop} {commit} {did}: {what}"
    d['log'] = [l for l in d['log'] if not (f" {did}:" in l and f"property={prop} " in l)] + [line]
else:
    i = rest.index('--')
    d['findings'].append({"id": did, "property": prop, "status": "open", "what": ' '.join(rest[i+1:]), "class": ' '.join(rest[:i]), "witness": wit})
d['findings'].sort(key=lambda f: (int(f['id'][1:]), f['property']))
json.dump(d, open(p, 'w'), indent=1)
print("ok", did, prop)
