#!/usr/bin/env python3
"""Regenerates /verif/MANIFEST.json from tools/checks.json (one entry per claimed property)
and properties.jsonl (everything not claimed is listed under not_applicable with its reason)."""
import json, os, subprocess
root = os.path.dirname(os.path.dirname(os.path.abspath(__file__)))
checks = json.load(open(os.path.join(root, 'tools', 'checks.json')))
props = [json.loads(l) for l in open(os.path.join(root, 'properties.jsonl'))]
hook_commits = subprocess.run(['git', '-C', '/repo', 'log', '--format=%H', '--grep=^verif:'], capture_output=True, text=True).stdout.split()
m = {
    "version": 1,
    "setup_cmd": "./setup.sh",
    "hooks": {
        "guard": "verif",
        "enable": "go build tag: the checks compile /repo with `-tags verif` (adds verif_hooks.go: VerifSnapshot, VerifFingerprint, VerifAddrs, VerifDeepHash)",
        "baseline_off_cmd": "cd /repo && GOFLAGS=-mod=mod go test -vet=off -count=1 ./...",
        "source_commits": hook_commits,
        "add_only": True,
    },
    "engines": [{
        "name": "verifctl",
        "path": "harness/cmd/verifctl",
        "serves_properties": sorted(checks['claimed'].keys()),
        "kind_free_text": "Go driver: rebuilds the property's rapid/enumeration test binary from /repo's working tree (-tags verif), runs the replay tier and known-finding witnesses, shards the generated search over processes, merges counters into evidence, maps deaths/hangs to journaled cases",
    }],
    "checks": [],
    "notes": checks.get('notes', ''),
    "not_applicable": [],
}
for p in props:
    pid = p['id']
    c = checks['claimed'].get(pid)
    if c is None:
        m['not_applicable'].append({"property_id": pid, "reason": checks['unclaimed'].get(pid, "check not built yet (work in progress); the technique applies, see DESIGN.md section 4")})
        continue
    m['checks'].append({
        "property_id": pid,
        "quick_cmd": f"./check {pid} quick",
        "thorough_cmd": f"./check {pid} thorough",
        "evidence_file": f"/verif/evidence/{pid}.json",
        "replay_cmd_template": f"./replay {pid} {{path}}",
        "engine": "verifctl",
        "level_claimed": {"category": "exploration", "text": c['text'], "design_ref": f"DESIGN.md section 4, {pid}"},
        "level_note": c['note'],
        "technique": c['technique'],
    })
json.dump(m, open(os.path.join(root, 'MANIFEST.json'), 'w'), indent=1)
print("claimed", len(m['checks']), "not_applicable", len(m['not_applicable']))
