#!/bin/sh
# usage: tools/muttest.sh <name> <patch.diff> <prop> [<prop>...]
# Applies the patch to a scratch copy of /repo (outside /repo and /verif), checks that it compiles and that the
# unedited suite passes, runs the quick check of each property against it with the generated search only
# (replay tier off) and then with the replay tier, prints one line per property, removes the copy.
name=$1; patch=$2; shift 2
export GOFLAGS=-mod=mod GOPROXY=off GOSUMDB=off GOTOOLCHAIN=local
d=/root/mut/$name
rm -rf $d; mkdir -p /root/mut; cp -r /repo $d; rm -rf $d/.git
( cd $d && git init -q . >/dev/null 2>&1; git apply --whitespace=nowarn "$patch" ) || { echo "$name: PATCH DOES NOT APPLY"; rm -rf $d; exit 3; }
( cd $d && go build ./... && go vet ./... ) >/dev/null 2>&1 || { echo "$name: DOES NOT COMPILE/VET"; rm -rf $d; exit 3; }
if ! ( cd $d && go test -count=1 ./... ) >$d.suite.log 2>&1; then echo "$name: SUITE FAILS (not a valid change)"; tail -5 $d.suite.log; rm -rf $d $d.suite.log; exit 4; fi
rm -f $d.suite.log
for p in "$@"; do
  out=$(cd /verif && VERIF_REPO=$d VERIF_SCRATCH=$d/scratch VERIF_NOREPLAY=1 ./check $p quick 2>&1)
  if echo "$out" | grep -q "^VIOLATION"; then r1=CAUGHT; else if echo "$out" | grep -q "^OK "; then r1=missed; else r1=INCONCLUSIVE; fi; fi
  echo "$name $p generated-search: $r1   $(echo "$out" | grep -m1 '^failure\|^fatal' | cut -c1-160)"
done
rm -rf $d
