#!/bin/sh
# Builds the driver from files on disk (offline) and warms the go build cache.
set -e
cd "$(dirname "$0")"
export GOFLAGS=-mod=mod GOPROXY=off GOSUMDB=off GOTOOLCHAIN=local GOWORK=off
mkdir -p bin work evidence
(cd harness && go build -o ../bin/verifctl ./cmd/verifctl)
# compile every property package once so that the first check does not pay for a cold cache
(cd harness && for d in props/*/; do go test -c -tags verif -o /dev/null "./$d" >/dev/null 2>&1 || true; done)
echo "setup ok"
